#!/usr/bin/env python3
"""Self-test of the source translators: robustness and sensitivity.

Usage: selftest.py [<repo>] [--harmless-dir DIR]

Copies <repo>/serde_avro_fast/src (default /repo, or $VERIF_REPO) to a temporary directory, generates the five
coq/gen files as the baseline, then applies textual edits one at a time and regenerates:

  * a HARMLESS edit (behaviour-preserving rewrite) must leave every generated file identical (Coq comments aside:
    the text of arms / bodies that no theorem pins is printed in comments);
  * a MEANING-CHANGING edit must change at least one generated file, or make a translator fail (= broken tie).

With --harmless-dir DIR every DIR/*/patch.diff is applied (patch -p1) as a further harmless edit.
Exit status 0 when every expectation holds."""
import os, re, shutil, subprocess, sys, tempfile

HERE = os.path.dirname(os.path.abspath(__file__))
TRANSLATORS = [("gen_rabin.py", "GenRabin.v"), ("gen_union.py", "GenUnionTable.v"), ("gen_consts.py", "GenConsts.v"),
               ("gen_dispatch.py", "GenDeDispatch.v"), ("gen_ser_dispatch.py", "GenSerDispatch.v")]

DE = "serde_avro_fast/src/de/deserializer/mod.rs"
DUR = "serde_avro_fast/src/de/deserializer/types/duration.rs"
SER = "serde_avro_fast/src/ser/serializer/mod.rs"
SERMOD = "serde_avro_fast/src/ser/mod.rs"
RABIN = "serde_avro_fast/src/schema/safe/rabin.rs"
UNION = "serde_avro_fast/src/schema/union_variants_per_type_lookup.rs"
RD = "serde_avro_fast/src/de/read/mod.rs"
OCF = "serde_avro_fast/src/object_container_file_encoding/mod.rs"
OCR = "serde_avro_fast/src/object_container_file_encoding/reader/mod.rs"
OCW = "serde_avro_fast/src/object_container_file_encoding/writer/mod.rs"
SO = "serde_avro_fast/src/single_object_encoding.rs"
DEMOD = "serde_avro_fast/src/de/mod.rs"

RABIN_LOOP = """		for &b in data {
			self.result = (self.result >> 8) ^ FP_TABLE[((self.result ^ b as u64) & 0xFF) as usize];
		}
"""
IGNORED_INT = """			SchemaNode::Int => {
				// Skip zigzag decoding
				let _: u32 = self.state.read_varint()?;
				visitor.visit_unit()
			}
"""
IGNORED_DURATION = """			SchemaNode::Duration => {
				self.state.read_const_size_buf::<12>()?;
				visitor.visit_unit()
			}
"""
ANY_ARRAY = """			SchemaNode::Array(elements_schema) => visitor.visit_seq(ArraySeqAccess {
				elements_schema: elements_schema.as_ref(),
				block_reader: BlockReader::new(self.state, false, self.allowed_depth.dec()?),
			}),
			SchemaNode::Map(elements_schema)"""
SER_FIXED_STR = """			SchemaNode::Fixed(Fixed { size, .. }) => {
				if *size != v.len() {"""

# (name, [(file, old, new, count)], ...)   count: how many occurrences to replace (0 = all)
HARMLESS = [
    ("de: or-patterns, arms regrouped", [
        (DE, "			SchemaNode::Int => visitor.visit_i32(self.state.read_varint()?),\n			SchemaNode::Long => visitor.visit_i64(self.state.read_varint()?),\n",
             "			SchemaNode::Int | SchemaNode::Date | SchemaNode::TimeMillis => {\n				visitor.visit_i32(self.state.read_varint()?)\n			}\n			SchemaNode::Long => visitor.visit_i64(self.state.read_varint()?),\n", 1),
        (DE, "			SchemaNode::Date => visitor.visit_i32(self.state.read_varint()?),\n			SchemaNode::TimeMillis => visitor.visit_i32(self.state.read_varint()?),\n", "", 1)]),
    ("de: value computed in a let first (annotated)", [
        (DE, "				visitor.visit_f32(f32::from_le_bytes(self.state.read_const_size_buf()?))\n",
             "				let le_bytes: [u8; 4] = self.state.read_const_size_buf()?;\n				visitor.visit_f32(f32::from_le_bytes(le_bytes))\n", 1)]),
    ("de: 12 -> const DURATION_SIZE defined in another file", [
        (DE, "::<12>", "::<DURATION_SIZE>", 0), (DE, "read_slice(12,", "read_slice(DURATION_SIZE,", 1),
        (DUR, "use super::*;\n", "use super::*;\n\npub(in super::super) const DURATION_SIZE: usize = 3 * 4;\n", 1)]),
    ("de: 12 -> associated const Self::DURATION_SIZE of an inherent impl in the same file", [
        (DE, "::<12>", "::<{ Self::DURATION_SIZE }>", 0),
        (DE, "read_slice(12,", "read_slice(Self::DURATION_SIZE,", 1),
        (DE, "impl<'de, R: ReadSlice<'de>> Deserializer<'de> for DatumDeserializer<'_, '_, R> {",
             "impl<R> DatumDeserializer<'_, '_, R> {\n	const DURATION_SIZE: usize = 12;\n}\n\nimpl<'de, R: ReadSlice<'de>> Deserializer<'de> for DatumDeserializer<'_, '_, R> {", 1)]),
    ("de: locals / parameters renamed, state alias, comments, messages", [
        (DE, "	fn deserialize_u64<V>(self, visitor: V) -> Result<V::Value, Self::Error>\n	where\n		V: Visitor<'de>,\n	{\n",
             "	fn deserialize_u64<V>(self, vis: V) -> Result<V::Value, Self::Error>\n	where\n		V: Visitor<'de>,\n	{\n		let visitor = vis;\n		let st = &mut *self.state;\n", 1),
        (DE, "				let discriminant: i64 = self.state.read_varint()?;\n				visitor.visit_u64(discriminant.try_into().map_err(|e| {\n					DeError::custom(format_args!(\"Got negative enum discriminant: {e}\"))\n				})?)",
             "				/* read it */ let d: i64 = st.read_varint()?;\n				visitor.visit_u64(d.try_into().map_err(|err| {\n					DeError::custom(format_args!(\"negative discriminant: {err}\"))\n				})?)", 1)]),
    ("de: identifier computed in lets before the call (H02)", [
        (DE, "			SchemaNode::Int => visitor.visit_u64({\n				let val: i32 = self.state.read_varint()?;\n				val.try_into()\n					.map_err(|_| DeError::new(\"Failed to convert i32 to u64 for enum identifier\"))?\n			}),",
             "			SchemaNode::Int => {\n				let val: i32 = self.state.read_varint()?;\n				let identifier: u64 = val\n					.try_into()\n					.map_err(|_| DeError::new(\"Failed to convert i32 to u64 for enum identifier\"))?;\n				visitor.visit_u64(identifier)\n			}", 1)]),
    ("de: option-union arm: if let instead of match on None first, locals renamed", [
        (DE, "				let union_discriminant: usize = read_discriminant(self.state)?;", "				let idx: usize = read_discriminant(self.state)?;", 1),
        (DE, "					.get(union_discriminant)\n					.map(|&schema_key| schema_key.as_ref())", "					.get(idx)\n					.map(|&k| k.as_ref())", 1),
        (DE, "*union.variants[1 - union_discriminant],", "*union.variants[1 - idx],", 1),
        (DE, "Some(variant_schema)", "Some(node)", 0),
        (DE, "schema_node: variant_schema,", "schema_node: node,", 2)]),
    ("de: helper extracted into a private fn of the same file", [
        (DE, IGNORED_DURATION, "			SchemaNode::Duration => skip_duration(self.state, visitor),\n", 1),
        (DE, "impl<'de, R: ReadSlice<'de>> Deserializer<'de> for DatumDeserializer<'_, '_, R> {",
             "fn skip_duration<'de, R: ReadSlice<'de>, V: Visitor<'de>>(\n	state: &mut DeserializerState<'_, R>,\n	visitor: V,\n) -> Result<V::Value, DeError> {\n	state.read_const_size_buf::<12>()?;\n	visitor.visit_unit()\n}\n\nimpl<'de, R: ReadSlice<'de>> Deserializer<'de> for DatumDeserializer<'_, '_, R> {", 1)]),
    ("de: dispatch written as an if let / else if let chain", [
        (DE, "		match *self.schema_node {\n			SchemaNode::Bytes => read_length_delimited(self.state, BytesVisitor(visitor)),\n			SchemaNode::Duration => self.state.read_slice(12, BytesVisitor(visitor)),\n			_ => self.deserialize_any(visitor),\n		}",
             "		if let SchemaNode::Duration = *self.schema_node {\n			self.state.read_slice(12, BytesVisitor(visitor))\n		} else if let SchemaNode::Bytes = *self.schema_node {\n			return read_length_delimited(self.state, BytesVisitor(visitor));\n		} else {\n			self.deserialize_any(visitor)\n		}", 1)]),
    ("de: forwarder with a let", [
        (DE, "		self.deserialize_bytes(visitor)\n", "		let v = visitor;\n		return self.deserialize_bytes(v);\n", 1)]),
    ("ser: fixed arm if/else flipped, operands swapped (H04)", [
        (SER, "				if *size != v.len() {\n					Err(SerError::new(\n						\"Can't serialize str as Fixed: str's len does not match Fixed's size\",\n					))\n				} else {\n					self.state\n						.writer\n						.write_all(v.as_bytes())\n						.map_err(SerError::io)\n				}",
              "				if v.len() == *size {\n					self.state\n						.writer\n						.write_all(v.as_bytes())\n						.map_err(SerError::io)\n				} else {\n					Err(SerError::new(\n						\"str has the wrong length for this Fixed\",\n					))\n				}", 1)]),
    ("ser: union key bound to a let before the call (H04)", [
        (SER, "			SchemaNode::Union(union) => self.serialize_union_unnamed(\n				union,\n				match std::mem::size_of::<N>() {\n					4 => UnionVariantLookupKey::Integer4,\n					8 => UnionVariantLookupKey::Integer8,\n					_ => UnionVariantLookupKey::Integer,\n				},\n",
              "			SchemaNode::Union(union) => {\n				let lookup_key = match std::mem::size_of::<N>() {\n					8 => UnionVariantLookupKey::Integer8,\n					4 => UnionVariantLookupKey::Integer4,\n					_ => UnionVariantLookupKey::Integer,\n				};\n				self.serialize_union_unnamed(\n				union,\n				lookup_key,\n", 1),
        (SER, "				|ser| ser.serialize_integer(num),\n			),", "				|ser| ser.serialize_integer(num),\n			)}", 1)]),
    ("rabin: fold, u64::from, items moved (H08)", [
        (RABIN, RABIN_LOOP, "		self.result = data.iter().fold(self.result, |fingerprint, &byte| {\n			let table_idx = ((fingerprint ^ u64::from(byte)) & 0xFF) as usize;\n			(fingerprint >> 8) ^ FP_TABLE[table_idx]\n		});\n", 1),
        (RABIN, "const EMPTY64: u64 = 0xC15D213A_A4D7A795;\n", "", 1),
        (RABIN, "impl Default for Rabin {", "/// the polynomial\nconst EMPTY64: u64 = 0xC15D_213A_A4D7_A795;\n\nimpl Default for Rabin {", 1)]),
    ("rabin: local accumulator, iter().copied()", [
        (RABIN, RABIN_LOOP, "		let mut acc = self.result;\n		for byte in data.iter().copied() {\n			let idx = ((acc ^ byte as u64) & 255) as usize;\n			acc = (acc >> 8) ^ FP_TABLE[idx];\n		}\n		self.result = acc;\n", 1)]),
    ("rabin: step moved to a private fn, called from a fold", [
        (RABIN, RABIN_LOOP, "		self.result = data.iter().fold(self.result, |acc, &byte| step(acc, byte));\n", 1),
        (RABIN, "impl Default for Rabin {", "fn step(state: u64, byte: u8) -> u64 {\n	let idx = (state ^ u64::from(byte)) & 0xFF;\n	(state >> 8) ^ FP_TABLE[idx as usize]\n}\n\nimpl Default for Rabin {", 1)]),
    ("consts: named constants for max_alloc_size, metadata max_seq_size, sync marker, marker bytes (H01, H09)", [
        (RD, "			max_alloc_size: 512 * 1024 * 1024,", "			max_alloc_size: DEFAULT_MAX_ALLOC_SIZE,", 1),
        (RD, "/// Implements `Read<'de>` reading from any `impl BufRead`\n", "const MIB: usize = 1024 * 1024;\nconst DEFAULT_MAX_ALLOC_SIZE: usize = 512 * MIB;\n\n/// Implements `Read<'de>` reading from any `impl BufRead`\n", 1),
        (OCR, "metadata_deserializer_config.max_seq_size = 1_000;", "let limit = METADATA_MAX_SEQ_SIZE;\n		metadata_deserializer_config.max_seq_size = limit;", 1),
        (OCR, "	sync_marker: [u8; 16],", "	sync_marker: [u8; SYNC_MARKER_LEN],", 1),
        (OCR, "enum ReaderState<'s, R: de::read::take::Take> {", "const SYNC_MARKER_LEN: usize = 16;\nconst METADATA_MAX_SEQ_SIZE: usize = 1_000;\n\nenum ReaderState<'s, R: de::read::take::Take> {", 1),
        (SO, "writer.write_all(&[0xC3, 0x01])", "writer.write_all(&MARKER)", 1),
        (SO, "slice[0..2] != [0xC3, 0x01]", "slice[0..2] != MARKER", 1),
        (SO, "use super::*;\n", "use super::*;\n\nconst MARKER: [u8; 2] = [0xC3, 1];\n", 1)]),
    ("consts: associated const with a shift, let bound to a constant, crate:: path", [
        (RD, "			max_alloc_size: 512 * 1024 * 1024,", "			max_alloc_size: Self::DEFAULT_MAX_ALLOC,", 1),
        (RD, "impl<R: std::io::BufRead> ReaderRead<R> {\n", "impl<R: std::io::BufRead> ReaderRead<R> {\n	const DEFAULT_MAX_ALLOC: usize = 1 << 29;\n", 1),
        (OCW, "		Self {\n			serializer_config,\n			compression: Compression::Null,\n			approx_block_size: 64 * 1024,",
              "		let default_block_size = crate::object_container_file_encoding::DEFAULT_BLOCK_KIB * 1024;\n		Self {\n			serializer_config,\n			compression: Compression::Null,\n			approx_block_size: default_block_size,", 1),
        (OCF, "const HEADER_CONST: [u8; 4] = [b'O', b'b', b'j', 1u8];", "pub(crate) const DEFAULT_BLOCK_KIB: u32 = 64;\nconst HEADER_CONST: [u8; 4] = *b\"Obj\\x01\";", 1)]),
    ("union: arms merged with an or-pattern, priority through a const, closure locals renamed", [
        (UNION, "				SchemaNode::TimeMicros => {\n					register_type_name(\"TimeMicros\");\n					register(UnionVariantLookupKey::Integer, 0);\n					register(UnionVariantLookupKey::Integer4, 1);\n					register(UnionVariantLookupKey::Integer8, 0);\n				}\n",
                "				SchemaNode::TimeMicros => {\n					register_type_name(\"TimeMicros\");\n					register(UnionVariantLookupKey::Integer, BEST);\n					register(UnionVariantLookupKey::Integer4, 1);\n					register(UnionVariantLookupKey::Integer8, BEST)\n				}\n", 1),
        (UNION, "const N_VARIANTS: usize = 20;", "const N_VARIANTS: usize = 20;\nconst BEST: usize = 0;", 1),
        (UNION, "let register_type_name = |type_name: &'static str| {\n				per_name\n					.borrow_mut()\n					.insert(Cow::Borrowed(type_name), (discriminant, schema_node));",
                "let register_type_name = |tn: &'static str| {\n				per_name.borrow_mut().insert(Cow::Borrowed(tn), (discriminant, schema_node));", 1)]),
]

CHANGING = [
    ("de: ignored Int reads u64 instead of u32", [(DE, "let _: u32 = self.state.read_varint()?;", "let _: u64 = self.state.read_varint()?;", 1)]),
    ("de: BlockReader flag false -> true in deserialize_any", [(DE, ANY_ARRAY, ANY_ARRAY.replace("false", "true"), 1)]),
    ("de: visit_unit -> visit_none for Null", [(DE, "			SchemaNode::Null => visitor.visit_unit(),", "			SchemaNode::Null => visitor.visit_none(),", 1)]),
    ("de: duration size 12 -> 8 in deserialize_ignored_any", [(DE, IGNORED_DURATION, IGNORED_DURATION.replace("12", "8"), 1)]),
    ("de: arm removed (ignored Int)", [(DE, IGNORED_INT, "", 1)]),
    ("de: guard added", [(DE, "			SchemaNode::Duration => self.state.read_slice(12, BytesVisitor(visitor)),", "			SchemaNode::Duration if self.allowed_depth.dec().is_ok() => self.state.read_slice(12, BytesVisitor(visitor)),", 1)]),
    ("de: new arm in deserialize_bytes", [(DE, "			SchemaNode::Duration => self.state.read_slice(12, BytesVisitor(visitor)),", "			SchemaNode::Duration => self.state.read_slice(12, BytesVisitor(visitor)),\n			SchemaNode::Uuid => self.state.read_slice(16, BytesVisitor(visitor)),", 1)]),
    ("de: visit_i32 -> visit_i64 for Date", [(DE, "			SchemaNode::Date => visitor.visit_i32(self.state.read_varint()?),", "			SchemaNode::Date => visitor.visit_i64(self.state.read_varint()?),", 1)]),
    ("de: StringVisitor -> BytesVisitor for Uuid", [(DE, "			SchemaNode::Uuid => read_length_delimited(self.state, StringVisitor(visitor)),", "			SchemaNode::Uuid => read_length_delimited(self.state, BytesVisitor(visitor)),", 1)]),
    ("de: forwarding changed (deserialize_byte_buf -> any)", [(DE, "		self.deserialize_bytes(visitor)\n", "		self.deserialize_any(visitor)\n", 1)]),
    ("de: statement added to an arm", [(DE, "				let _: u32 = self.state.read_varint()?;\n", "				let _: u32 = self.state.read_varint()?;\n				let _: u32 = self.state.read_varint()?;\n", 1)]),
    ("de: named constant with another value", [
        (DE, "::<12>", "::<DURATION_SIZE>", 0), (DE, "read_slice(12,", "read_slice(DURATION_SIZE,", 1),
        (DUR, "use super::*;\n", "use super::*;\n\npub(in super::super) const DURATION_SIZE: usize = 16;\n", 1)]),
    ("de: let moved across another read (order of evaluation)", [
        (DE, "				variant_schema: read_union_discriminant(self.state, union)?,\n				state: self.state,\n				allowed_depth: self.allowed_depth.dec()?,",
             "				allowed_depth: self.allowed_depth.dec()?,\n				variant_schema: read_union_discriminant(self.state, union)?,\n				state: self.state,", 1)]),
    ("de: helper of the same file with a different body", [
        (DE, IGNORED_DURATION, "			SchemaNode::Duration => skip_duration(self.state, visitor),\n", 1),
        (DE, "impl<'de, R: ReadSlice<'de>> Deserializer<'de> for DatumDeserializer<'_, '_, R> {",
             "fn skip_duration<'de, R: ReadSlice<'de>, V: Visitor<'de>>(\n	state: &mut DeserializerState<'_, R>,\n	visitor: V,\n) -> Result<V::Value, DeError> {\n	state.read_const_size_buf::<8>()?;\n	visitor.visit_unit()\n}\n\nimpl<'de, R: ReadSlice<'de>> Deserializer<'de> for DatumDeserializer<'_, '_, R> {", 1)]),
    ("de: option-union guard len == 2 -> len >= 2", [(DE, "if union.variants.len() == 2", "if union.variants.len() >= 2", 1)]),
    ("ser: fixed str length check inverted", [(SER, SER_FIXED_STR, SER_FIXED_STR.replace("!=", "=="), 1)]),
    ("ser: bool written as another byte", [(SER, ".write_all(&[v as u8])", ".write_all(&[!v as u8])", 1)]),
    ("ser: serialize_u8 no longer forwards to serialize_integer", [(SER, "	fn serialize_u8(self, v: u8) -> Result<Self::Ok, Self::Error> {\n		self.serialize_integer(v)", "	fn serialize_u8(self, v: u8) -> Result<Self::Ok, Self::Error> {\n		self.serialize_integer(v as i8)", 1)]),
    ("consts: sync marker length 16 -> 15", [
        (OCR, "	sync_marker: [u8; 16],", "	sync_marker: [u8; 15],", 1), (OCR, "::<16>", "::<15>", 0),
        (OCW, "[u8; 16]", "[u8; 15]", 0)]),
    ("consts: default max_alloc_size", [(RD, "max_alloc_size: 512 * 1024 * 1024,", "max_alloc_size: 256 * 1024 * 1024,", 1)]),
    ("consts: default max_alloc_size through a named constant", [
        (RD, "			max_alloc_size: 512 * 1024 * 1024,", "			max_alloc_size: DEFAULT_MAX_ALLOC_SIZE,", 1),
        (RD, "/// Implements `Read<'de>` reading from any `impl BufRead`\n", "const DEFAULT_MAX_ALLOC_SIZE: usize = 512 * 1024 * 1000;\n\n/// Implements `Read<'de>` reading from any `impl BufRead`\n", 1)]),
    ("consts: HEADER magic byte", [(OCF, "[b'O', b'b', b'j', 1u8]", "[b'O', b'b', b'j', 2u8]", 1)]),
    ("consts: metadata max_seq_size", [(OCR, "max_seq_size = 1_000;", "max_seq_size = 10_000;", 1)]),
    ("consts: default max_seq_size", [(DEMOD, "max_seq_size: 1_000_000_000,", "max_seq_size: 1_000_000,", 1)]),
    ("consts: single-object marker", [(SO, "write_all(&[0xC3, 0x01])", "write_all(&[0xC3, 0x02])", 1)]),
    ("consts: default block size", [(OCW, "approx_block_size: 64 * 1024,", "approx_block_size: 32 * 1024,", 1)]),
    ("rabin: table entry", [(RABIN, "	0x2CF1CBA6B75351FA,", "	0x2CF1CBA6B75351FB,", 1)]),
    ("rabin: polynomial", [(RABIN, "0xC15D213A_A4D7A795", "0xC15D213A_A4D7A794", 1)]),
    ("rabin: shift", [(RABIN, "(self.result >> 8)", "(self.result >> 7)", 1)]),
    ("rabin: mask", [(RABIN, "& 0xFF) as usize", "& 0x7F) as usize", 1)]),
    ("rabin: bytes in reverse order", [(RABIN, "for &b in data {", "for &b in data.iter().rev() {", 1)]),
    ("rabin: step moved to a private fn that shifts by 7", [
        (RABIN, RABIN_LOOP, "		self.result = data.iter().fold(self.result, |acc, &byte| step(acc, byte));\n", 1),
        (RABIN, "impl Default for Rabin {", "fn step(state: u64, byte: u8) -> u64 {\n	let idx = (state ^ u64::from(byte)) & 0xFF;\n	(state >> 7) ^ FP_TABLE[idx as usize]\n}\n\nimpl Default for Rabin {", 1)]),
    ("rabin: finish big-endian", [(RABIN, "to_le_bytes()", "to_be_bytes()", 1)]),
    ("union: priority", [(UNION, "					register(UnionVariantLookupKey::Integer8, 1);\n				}\n				SchemaNode::Long", "					register(UnionVariantLookupKey::Integer8, 2);\n				}\n				SchemaNode::Long", 1)]),
    ("union: conflict rule (< -> <=)", [(UNION, "if priority < old_priority {", "if priority <= old_priority {", 1)]),
    ("union: key of a registration", [(UNION, "					register_type_name(\"Boolean\");\n					register(UnionVariantLookupKey::Boolean, 0)", "					register_type_name(\"Boolean\");\n					register(UnionVariantLookupKey::Integer, 0)", 1)]),
]

def strip_comments(s):
    out, depth, i = [], 0, 0
    while i < len(s):
        if s.startswith("(*", i):
            depth += 1; i += 2
        elif s.startswith("*)", i) and depth:
            depth -= 1; i += 2
        else:
            if depth == 0:
                out.append(s[i])
            i += 1
    return re.sub(r"[ \t]+\n", "\n", "".join(out))

def generate(root, outdir):
    os.makedirs(outdir, exist_ok=True)
    res = {}
    for script, out in TRANSLATORS:
        path = os.path.join(outdir, out)
        if os.path.exists(path):
            os.remove(path)
        p = subprocess.run([sys.executable, os.path.join(HERE, script), root, path], capture_output=True, text=True)
        if p.returncode != 0 or not os.path.exists(path):
            res[out] = ("FAILED", (p.stdout + p.stderr).strip().split("\n")[-1][:200])
        else:
            res[out] = ("OK", strip_comments(open(path).read()))
    return res

def fresh_copy(repo, tmp):
    dst = os.path.join(tmp, "tree")
    if os.path.exists(dst):
        shutil.rmtree(dst)
    shutil.copytree(os.path.join(repo, "serde_avro_fast", "src"), os.path.join(dst, "serde_avro_fast", "src"))
    return dst

def apply_edits(root, edits):
    for f, old, new, count in edits:
        p = os.path.join(root, f)
        s = open(p).read()
        n = s.count(old)
        if n == 0 or (count and n < count):
            raise RuntimeError("edit does not apply to %s (%d occurrences of %r)" % (f, n, old[:60]))
        s = s.replace(old, new) if count == 0 else s.replace(old, new, count)
        open(p, "w").write(s)

def differences(base, got):
    return [k for k in base if base[k] != got[k]]

def main():
    args = sys.argv[1:]
    hdir = None
    if "--harmless-dir" in args:
        i = args.index("--harmless-dir")
        hdir = args[i + 1]
        del args[i:i + 2]
    repo = args[0] if args else os.environ.get("VERIF_REPO", "/repo")
    tmp = tempfile.mkdtemp(prefix="trselftest")
    bad = 0
    try:
        root = fresh_copy(repo, tmp)
        base = generate(root, os.path.join(tmp, "base"))
        for k, v in base.items():
            if v[0] != "OK":
                print("BASELINE FAILS %s: %s" % (k, v[1]))
                return 2
        for name, edits in HARMLESS:
            root = fresh_copy(repo, tmp)
            try:
                apply_edits(root, edits)
            except RuntimeError as e:
                print("SKIP  harmless  %-70s %s" % (name, e)); bad += 1
                continue
            d = differences(base, generate(root, os.path.join(tmp, "out")))
            print("%s  harmless  %-70s %s" % ("ok  " if not d else "FAIL", name, ("changed: " + ", ".join(d)) if d else ""))
            bad += bool(d)
        if hdir:
            for h in sorted(os.listdir(hdir)):
                patch = os.path.join(hdir, h, "patch.diff")
                if not os.path.exists(patch):
                    continue
                root = fresh_copy(repo, tmp)
                p = subprocess.run(["patch", "-p1", "-s", "--force", "-d", root, "-i", patch], capture_output=True, text=True)
                # hunks for the other crates of the workspace cannot apply to this copy: only hunks on serde_avro_fast matter
                got = generate(root, os.path.join(tmp, "out"))
                d = differences(base, got)
                print("%s  harmless  %-70s %s" % ("ok  " if not d else "FAIL", "patch " + h, ("changed: " + ", ".join(
                    "%s%s" % (k, " (" + got[k][1] + ")" if got[k][0] != "OK" else "") for k in d)) if d else ""))
                bad += bool(d)
        for name, edits in CHANGING:
            root = fresh_copy(repo, tmp)
            try:
                apply_edits(root, edits)
            except RuntimeError as e:
                print("SKIP  changing  %-70s %s" % (name, e)); bad += 1
                continue
            got = generate(root, os.path.join(tmp, "out"))
            d = differences(base, got)
            how = ", ".join("%s%s" % (k, " (translator fails: " + got[k][1] + ")" if got[k][0] != "OK" else "") for k in d)
            print("%s  changing  %-70s %s" % ("ok  " if d else "FAIL", name, ("detected in: " + how) if d else "NOT DETECTED"))
            bad += not d
    finally:
        shutil.rmtree(tmp, ignore_errors=True)
    print("selftest: %d harmless + %d meaning-changing edits, %d failures" % (len(HARMLESS), len(CHANGING), bad))
    return 1 if bad else 0

if __name__ == "__main__":
    sys.exit(main())
