"""Behaviour-preserving normalisation of the ASTs of rustast.py, shared by the translators.

Every rewrite below maps a piece of Rust to a piece of Rust with the same behaviour, so two sources that differ by
such rewrites get the same canonical text, and two sources with different behaviour keep different texts:

  * constants: a path that resolves to a `const NAME: T = <const expr>;` (same file first, then anywhere in the
    crate when every definition of that name has the same value; `Self::NAME`, `module::NAME`, `u8::MAX` ..) is
    replaced by its value, in expressions, in generic arguments (`read_const_size_buf::<N>()`) and in array types
    (`[0u8; N]`); integer literals are printed in decimal without `_`
  * `T::from(x)` for a primitive numeric `T` is `x as T` (From between numeric primitives exists only when lossless)
  * `if let P = e { A } else { B }` is `match e { P => A, _ => B }`; the arms of a match with pairwise disjoint
    constructor patterns are sorted, top-level or-patterns are split, `_` next to `Some(..)`/`Ok(..)`/`Err(..)`
    is `None`/`Err(_)`/`Ok(_)`
  * `if !c {A} else {B}`, `if a != b {A} else {B}`, `if a >= b ..`: the condition is made positive (`==`, `<`)
    by swapping the branches / operands; the operands of `==` are ordered when both are pure
  * in tail position of the function `return e` is `e`, and `if c { ..; return e; } rest` is `if c {..; e} else {rest}`
  * `let x [: T] = e;` (not `mut`, a plain name) whose single use is the first thing evaluated afterwards is
    substituted (`__asc(e, T)` keeps the annotation unless the position already fixes the type); a let bound to
    a literal is substituted everywhere; `let P = { stmts; e };` is `stmts; let P = e;`; `let (a, b) = (x, y);`
    is `let a = x; let b = y;`; `{ e }` is `e`; `Ok(e)?` is `e`
  * leading `let name = [&mut *] self.<field>;` aliases are substituted
  * a call of a private fn / inherent method defined in the same file can be replaced by its body
    (`inline_helpers`, used by the translators only when an arm is not recognised as written)
  * every local binder is renamed in binding order (`rename_locals`)

What is NOT equated (so still reported as a change): anything that moves an evaluation across another impure
evaluation, `mut` lets, helpers that live in another file, helpers whose body uses `return` (other than in tail
position) or `?` with a different error type, consts with a lower-case name, `static`s, type aliases."""
import os, re
import rustmatch as R
import rustast as A
from rustmatch import ShapeError

PRIM_INT = {"u8": (0, 2**8 - 1), "u16": (0, 2**16 - 1), "u32": (0, 2**32 - 1), "u64": (0, 2**64 - 1),
            "u128": (0, 2**128 - 1), "usize": (0, 2**64 - 1), "i8": (-2**7, 2**7 - 1), "i16": (-2**15, 2**15 - 1),
            "i32": (-2**31, 2**31 - 1), "i64": (-2**63, 2**63 - 1), "i128": (-2**127, 2**127 - 1),
            "isize": (-2**63, 2**63 - 1)}
PRIM_NUM = set(PRIM_INT) | {"f32", "f64"}
CONST_NAME = re.compile(r"^[A-Z][A-Z0-9_]*$")
INT_LIT = re.compile(r"^(0x[0-9A-Fa-f_]+|0o[0-7_]+|0b[01_]+|\d[\d_]*)((?:[iu](?:8|16|32|64|128|size))?)$")

def path_of(name):
    return ("path", ((name, None),))

def is_var(e, name=None):
    return e[0] == "path" and len(e[1]) == 1 and e[1][0][1] is None and (name is None or e[1][0][0] == name)

def int_value(tok):
    """value of an integer literal token, or None"""
    m = INT_LIT.match(tok)
    if not m:
        return None
    return int(m.group(1).replace("_", ""), 0), m.group(2)

# ============================================================================ generic traversal
def map_expr(e, f, fp=None, ft=None):
    """rebuilds e with f applied to every direct sub-expression (fp: to sub-patterns, ft: to types)"""
    if e is None:
        return None
    k = e[0]
    fp = fp or (lambda p: p)
    ft = ft or (lambda t: t)
    def gs(g):
        return None if g is None else tuple(ft(a) for a in g)
    def segs(ss):
        return tuple((n, gs(g)) for n, g in ss)
    if k == "lit":
        return e
    if k == "path":
        return ("path", segs(e[1]))
    if k == "qpath":
        return ("qpath", e[1], segs(e[2]))
    if k == "call":
        return ("call", f(e[1]), tuple(f(a) for a in e[2]))
    if k == "mcall":
        return ("mcall", f(e[1]), e[2], gs(e[3]), tuple(f(a) for a in e[4]))
    if k == "field":
        return ("field", f(e[1]), e[2])
    if k == "index":
        return ("index", f(e[1]), f(e[2]))
    if k == "try":
        return ("try", f(e[1]))
    if k == "unary":
        return ("unary", e[1], f(e[2]))
    if k == "binary":
        return ("binary", e[1], f(e[2]), f(e[3]))
    if k == "assign":
        return ("assign", e[1], f(e[2]), f(e[3]))
    if k == "cast":
        return ("cast", f(e[1]), ft(e[2]))
    if k == "asc":
        return ("asc", f(e[1]), ft(e[2]))
    if k == "range":
        return ("range", None if e[1] is None else f(e[1]), None if e[2] is None else f(e[2]), e[3])
    if k == "closure":
        return ("closure", e[1], tuple((fp(p), None if t is None else ft(t)) for p, t in e[2]),
                None if e[3] is None else ft(e[3]), f(e[4]))
    if k == "block":
        return ("block", tuple(map_stmt(s, f, fp, ft) for s in e[1]), e[2], e[3])
    if k == "if":
        return ("if", f(e[1]), f(e[2]), None if e[3] is None else f(e[3]))
    if k == "letcond":
        return ("letcond", fp(e[1]), f(e[2]))
    if k == "match":
        return ("match", f(e[1]), tuple((fp(p), None if g is None else f(g), f(b)) for p, g, b in e[2]))
    if k == "while":
        return ("while", f(e[1]), f(e[2]), e[3])
    if k == "loop":
        return ("loop", f(e[1]), e[2])
    if k == "for":
        return ("for", fp(e[1]), f(e[2]), f(e[3]), e[4])
    if k == "break":
        return ("break", e[1], None if e[2] is None else f(e[2]))
    if k == "continue":
        return e
    if k == "return":
        return ("return", None if e[1] is None else f(e[1]))
    if k == "macro":
        return e
    if k == "struct":
        p = e[1]
        p = ("path", segs(p[1])) if p[0] == "path" else ("qpath", p[1], segs(p[2]))
        return ("struct", p, tuple((n, f(v)) for n, v in e[2]), None if e[3] is None else f(e[3]))
    if k == "tuple":
        return ("tuple", tuple(f(a) for a in e[1]))
    if k == "array":
        return ("array", tuple(f(a) for a in e[1]))
    if k == "repeat":
        return ("repeat", f(e[1]), f(e[2]))
    raise ShapeError("map_expr: unknown node %r" % (k,))

def map_stmt(s, f, fp=None, ft=None):
    fp = fp or (lambda p: p)
    ft = ft or (lambda t: t)
    k = s[0]
    if k == "let":
        return ("let", fp(s[1]), None if s[2] is None else ft(s[2]), None if s[3] is None else f(s[3]),
                None if s[4] is None else f(s[4]))
    if k in ("expr", "semi"):
        return (k, f(s[1]))
    if k == "item":
        return s
    if k == "attr":
        return ("attr", s[1], map_stmt(s[2], f, fp, ft))
    raise ShapeError("map_stmt: unknown statement %r" % (k,))

def map_pat(p, fp):
    k = p[0]
    if k in ("p_wild", "p_rest", "p_lit", "p_range", "p_path", "p_macro"):
        return p
    if k == "p_attr":
        return ("p_attr", p[1], fp(p[2]))
    if k == "p_ident":
        return ("p_ident", p[1], p[2], p[3], None if p[4] is None else fp(p[4]))
    if k == "p_ref":
        return ("p_ref", p[1], fp(p[2]))
    if k in ("p_tuple", "p_slice", "p_or"):
        return (k, tuple(fp(q) for q in p[1]))
    if k == "p_ts":
        return ("p_ts", p[1], tuple(fp(q) for q in p[2]))
    if k == "p_struct":
        return ("p_struct", p[1], tuple((n, fp(q)) for n, q in p[2]), p[3])
    raise ShapeError("map_pat: unknown pattern %r" % (k,))

def bottom_up(e, f):
    """applies f to every expression node, children first"""
    def go(x):
        return f(map_expr(x, go))
    return go(e)

def pat_binders(p, out=None):
    """names bound by a pattern, in source order"""
    if out is None:
        out = []
    k = p[0]
    if k == "p_ident":
        out.append(p[3])
        if p[4] is not None:
            pat_binders(p[4], out)
    elif k in ("p_ref", "p_attr"):
        pat_binders(p[2], out)
    elif k in ("p_tuple", "p_slice"):
        for q in p[1]:
            pat_binders(q, out)
    elif k == "p_or":
        pat_binders(p[1][0], out)
    elif k == "p_ts":
        for q in p[2]:
            pat_binders(q, out)
    elif k == "p_struct":
        for _, q in p[2]:
            pat_binders(q, out)
    return out

# ============================================================================ constants
class ConstEnv:
    """the `const` items of a crate. value: int, or ("bytes", tuple of ints) for byte arrays / byte strings."""
    def __init__(self, src_root=None):
        self.files = {}        # path -> FileItems
        self.root = src_root
        self._all = None
        self._busy = set()

    def items(self, path):
        path = os.path.abspath(path)
        if path not in self.files:
            try:
                self.files[path] = A.scan_items(R.tokenize(open(path).read()))
            except (OSError, ShapeError):
                self.files[path] = A.FileItems()
        return self.files[path]

    def _crate(self):
        if self._all is None:
            self._all = {}
            if self.root:
                for dp, _, fs in os.walk(self.root):
                    for f in sorted(fs):
                        if f.endswith(".rs"):
                            p = os.path.join(dp, f)
                            for name, defs in self.items(p).consts.items():
                                for d in defs:
                                    self._all.setdefault(name, []).append((p, d))
        return self._all

    def lookup(self, name, path=None):
        """value of the const `name` as seen from file `path`, or None"""
        if not CONST_NAME.match(name):
            return None
        key = (name, path)
        if key in self._busy:
            return None
        self._busy.add(key)
        try:
            cands = []
            if path is not None:
                cands = [(path, d) for d in self.items(path).consts.get(name, [])]
            if not cands:
                cands = self._crate().get(name, [])
            vals = []
            for p, (ty, toks, owner) in cands:
                try:
                    v = self.eval_tokens(toks, p)
                except ShapeError:
                    v = None
                vals.append(v)
            if not vals or any(v is None for v in vals) or any(v != vals[0] for v in vals):
                return None
            return vals[0]
        finally:
            self._busy.discard(key)

    def eval_tokens(self, toks, path=None):
        return self.eval(A.parse_expr_tokens(list(toks)), path)

    def eval(self, e, path=None):
        """value of a constant expression, or None"""
        k = e[0]
        if k == "lit":
            t = e[1]
            iv = int_value(t)
            if iv is not None:
                return iv[0]
            if t.startswith("b'"):
                return _byte_char(t)
            if t.startswith('b"'):
                return ("bytes", tuple(_byte_string(t)))
            return None
        if k == "path":
            segs = e[1]
            if any(g is not None for _, g in segs):
                return None
            name = segs[-1][0]
            if len(segs) == 2 and segs[0][0] in PRIM_INT and name in ("MAX", "MIN", "BITS"):
                lo, hi = PRIM_INT[segs[0][0]]
                return {"MAX": hi, "MIN": lo, "BITS": (hi - lo).bit_length()}[name]
            if segs[0][0] in ("std", "core", "alloc") or (len(segs) > 1 and segs[0][0] in PRIM_NUM):
                return None
            return self.lookup(name, path)
        if k == "unary" and e[1] == "-":
            v = self.eval(e[2], path)
            return -v if isinstance(v, int) else None
        if k == "unary" and e[1] in ("&", "*"):
            return self.eval(e[2], path)
        if k == "cast":
            v = self.eval(e[1], path)
            ty = "".join(e[2][1])
            if isinstance(v, int) and ty in PRIM_INT:
                lo, hi = PRIM_INT[ty]
                return v if lo <= v <= hi else None
            return None
        if k == "binary":
            l, r = self.eval(e[2], path), self.eval(e[3], path)
            if not isinstance(l, int) or not isinstance(r, int):
                return None
            op = e[1]
            try:
                if op == "+": return l + r
                if op == "-": return l - r
                if op == "*": return l * r
                if op == "/": return l // r if l >= 0 and r > 0 else None
                if op == "%": return l % r if l >= 0 and r > 0 else None
                if op == "<<": return l << r if 0 <= r < 128 else None
                if op == ">>": return l >> r if 0 <= r < 128 else None
                if op == "&": return l & r
                if op == "|": return l | r
                if op == "^": return l ^ r
            except (ZeroDivisionError, ValueError):
                return None
            return None
        if k == "array":
            vs = [self.eval(x, path) for x in e[1]]
            if all(isinstance(v, int) for v in vs):
                return ("bytes", tuple(vs))
            return None
        if k == "repeat":
            v, n = self.eval(e[1], path), self.eval(e[2], path)
            if isinstance(v, int) and isinstance(n, int) and 0 <= n <= 4096:
                return ("bytes", (v,) * n)
            return None
        if k == "block" and len(e[1]) == 1 and e[1][0][0] == "expr":
            return self.eval(e[1][0][1], path)
        return None

def _byte_char(t):
    s = t[2:-1]
    if len(s) == 1:
        return ord(s)
    esc = {"\\n": 10, "\\r": 13, "\\t": 9, "\\\\": 92, "\\0": 0, "\\'": 39, '\\"': 34}
    if s in esc:
        return esc[s]
    if s.startswith("\\x") and len(s) == 4:
        return int(s[2:], 16)
    raise ShapeError("byte literal %s" % t)

def _byte_string(t):
    s, out, i = t[2:-1], [], 0
    while i < len(s):
        if s[i] == "\\":
            if s[i + 1] == "x":
                out.append(int(s[i + 2:i + 4], 16)); i += 4
            else:
                out.append(_byte_char("b'" + s[i:i + 2] + "'")); i += 2
        else:
            out.append(ord(s[i])); i += 1
    return out

def value_expr(v):
    """a constant value as an expression node"""
    if isinstance(v, int):
        if v < 0:
            return ("unary", "-", ("lit", str(-v)))
        return ("lit", str(v))
    return ("array", tuple(("lit", str(b)) for b in v[1]))

def canon_int_token(t):
    iv = int_value(t)
    if iv is None:
        return t
    return str(iv[0]) + iv[1]

def resolve_type(ty, env, path):
    """constants inside a type's tokens: a generic argument / array length that is a const name (or `Self::NAME`,
    `{ NAME }`), and integer literals in canonical form"""
    if ty is None:
        return None
    t = list(ty[1])
    out, i = [], 0
    while i < len(t):
        x = t[i]
        if x in ("Self", "self", "super", "crate") and i + 2 < len(t) and t[i + 1] == "::" and CONST_NAME.match(t[i + 2]) \
                and (i + 3 >= len(t) or t[i + 3] not in ("::", "<")):
            v = env.lookup(t[i + 2], path) if env else None
            if isinstance(v, int) and v >= 0:
                out.append(str(v)); i += 3
                continue
        if CONST_NAME.match(x) and len(x) > 1 and (i == 0 or t[i - 1] not in ("::", ".", "'")) and (i + 1 >= len(t) or t[i + 1] not in ("::", "<", "(")):
            v = env.lookup(x, path) if env else None
            if isinstance(v, int) and v >= 0:
                out.append(str(v)); i += 1
                continue
        out.append(canon_int_token(x)); i += 1
    # `{ 12 }` as a generic argument is `12`
    if len(out) == 3 and out[0] == "{" and out[2] == "}" and out[1].isdigit():
        out = [out[1]]
    return ("ty", tuple(out))

def resolve_consts(e, env, path):
    """constant paths -> values, literals -> canonical form, in a whole expression / block"""
    ft = lambda t: resolve_type(t, env, path)
    def fpat(p):
        if p[0] == "p_path" and p[1][0] == "path":
            name = p[1][1][-1][0]
            if CONST_NAME.match(name) and len(name) > 1 and env:
                v = env.eval(p[1], path)
                if isinstance(v, int) and v >= 0:
                    return ("p_lit", (str(v),))
        if p[0] == "p_lit":
            return ("p_lit", tuple(canon_int_token(x) for x in p[1]))
        return map_pat(p, fpat)
    def go(x):
        if x[0] == "index" and x[1][0] == "path":
            # TABLE[i]: the table keeps its name (its entries are read by the translator that needs them)
            return ("index", x[1], go(x[2]))
        x = map_expr(x, go, fpat, ft)
        if x[0] == "lit":
            return ("lit", canon_int_token(x[1]))
        if x[0] == "path" and env is not None:
            name = x[1][-1][0]
            if CONST_NAME.match(name) and len(name) > 1 and x[1][-1][1] is None:
                v = env.eval(x, path)
                if v is not None:
                    return value_expr(v)
        return x
    return go(e)

# ============================================================================ purity / evaluation order
PURE_METHODS = {"len", "is_empty", "as_ref", "as_bytes", "as_str", "as_slice", "iter", "is_some", "is_none", "is_ok",
                "is_err", "contains_key", "name", "fully_qualified_name", "copied", "cloned", "get", "to_le_bytes",
                "to_be_bytes", "first", "last"}

def is_ctor_path(e):
    """`Some`, `Ok`, `BytesVisitor`, `DecimalMode::Regular`: a tuple-struct / variant constructor (upper-case last segment)"""
    return e[0] == "path" and e[1][-1][0][:1].isupper() and not CONST_NAME.match(e[1][-1][0] if len(e[1][-1][0]) > 1 else "x")

def is_place(e):
    """a variable or a chain of fields of one"""
    while e[0] == "field":
        e = e[1]
    return e[0] == "path" and len(e[1]) == 1

def is_pure(e):
    """no side effect, no control flow, no dependency on evaluation order with respect to pure neighbours"""
    k = e[0]
    if k == "lit":
        return True
    if k in ("path", "qpath"):
        return True
    if k == "field":
        return is_pure(e[1])
    if k == "unary":
        return is_pure(e[2])
    if k == "binary":
        return e[1] in ("==", "!=", "<", ">", "<=", ">=", "&&", "||", "&", "|", "^") and is_pure(e[2]) and is_pure(e[3])
    if k in ("cast", "asc"):
        return is_pure(e[1])
    if k == "mcall":
        return e[2] in PURE_METHODS and is_pure(e[1]) and all(is_pure(a) for a in e[4])
    if k == "call":
        return is_ctor_path(e[1]) and all(is_pure(a) for a in e[2])
    if k in ("tuple", "array"):
        return all(is_pure(a) for a in e[1])
    if k == "struct":
        return e[3] is None and all(is_pure(v) for _, v in e[2])
    return False

def is_atomic(e):
    """a value that can be copied anywhere: a literal (possibly negated / cast)"""
    if e[0] == "lit":
        return True
    if e[0] == "unary" and e[1] == "-":
        return is_atomic(e[2])
    if e[0] == "array":
        return all(is_atomic(a) for a in e[1])
    if e[0] == "binary" and e[1] in ("+", "-", "*", "<<", ">>", "&", "|", "^"):
        return is_atomic(e[2]) and is_atomic(e[3])          # constant arithmetic (folded by the compiler)
    if e[0] == "cast" and len(e[2][1]) == 1 and e[2][1][0] in PRIM_INT:
        return is_atomic(e[1])
    return False

class _Found(Exception):
    pass
class _Barrier(Exception):
    pass

def first_evaluated(stmts, name):
    """True when, executing `stmts` in order, the (single) read of the variable `name` happens before any impure
    evaluation: only whole local variables, constructor / function paths, literals and places used as method
    receivers or under `&` are evaluated before it, and it is not under a closure, a loop, or a branch."""
    def ev(e, recv=False):
        k = e[0]
        if k == "lit":
            return
        if k == "path":
            if is_var(e, name):
                raise _Found()
            return
        if k == "qpath":
            return
        if k == "field":
            if is_place(e):
                root = e
                while root[0] == "field":
                    root = root[1]
                if is_var(root, name):
                    raise _Found()
                if recv:
                    return
                raise _Barrier()
            ev(e[1]); raise _Barrier()
        if k == "unary":
            if e[1] in ("&", "&mut"):
                ev(e[2], recv=True)
                return
            ev(e[2])
            if e[1] == "*":
                raise _Barrier()
            return
        if k in ("cast", "asc"):
            ev(e[1]); return
        if k == "try":
            ev(e[1]); raise _Barrier()
        if k == "call":
            if e[1][0] not in ("path", "qpath"):
                ev(e[1])
            for a in e[2]:
                ev(a)
            if is_ctor_path(e[1]):
                return
            raise _Barrier()
        if k == "mcall":
            ev(e[1], recv=True)
            for a in e[4]:
                ev(a)
            raise _Barrier()
        if k == "binary":
            ev(e[2])
            if e[1] in ("&&", "||"):
                if _mentions(e[3], name):
                    raise _Barrier()
                ev_noname(e[3])
                return
            ev(e[3])
            if e[1] in ("/", "%", "+", "-", "*", "<<", ">>"):
                return
            return
        if k in ("tuple", "array"):
            for a in e[1]:
                ev(a)
            return
        if k == "repeat":
            ev(e[1]); ev(e[2]); return
        if k == "struct":
            for _, v in e[2]:
                ev(v)
            if e[3] is not None:
                ev(e[3])
            return
        if k == "index":
            ev(e[1], recv=True); ev(e[2]); raise _Barrier()
        if k == "range":
            if e[1] is not None: ev(e[1])
            if e[2] is not None: ev(e[2])
            return
        if k == "block":
            if e[3] not in ("",) or e[2]:
                raise _Barrier()
            ev_stmts(e[1])
            return
        if k == "if":
            c = e[1]
            if c[0] == "letcond":
                ev(c[2])
            else:
                ev(c)
            raise _Barrier()
        if k == "match":
            ev(e[1]); raise _Barrier()
        if k == "return":
            if e[1] is not None: ev(e[1])
            raise _Barrier()
        if k == "assign":
            if e[1] == "=" and is_place(e[2]):
                ev(e[3])
            raise _Barrier()
        raise _Barrier()      # closures, loops, macros, break ..
    def ev_noname(e):
        # evaluates something that does not mention the name: only its purity matters
        if not is_pure(e):
            raise _Barrier()
    def ev_stmts(ss):
        for s in ss:
            if s[0] == "let":
                if s[3] is not None:
                    ev(s[3])
                if s[4] is not None:
                    raise _Barrier()
                if name in pat_binders(s[1]):
                    raise _Barrier()
            elif s[0] in ("expr", "semi"):
                ev(s[1])
            else:
                raise _Barrier()
    try:
        ev_stmts(stmts)
    except _Found:
        return True
    except _Barrier:
        return False
    return False

def _mentions(e, name):
    return count_uses_expr(e, name) > 0

def count_uses_expr(e, name):
    n = [0]
    def go(x):
        if x is None:
            return x
        if x[0] == "path" and is_var(x, name):
            n[0] += 1
        elif x[0] == "macro":
            n[0] += sum(1 for t in x[3] if t == name)
        map_expr(x, go)
        return x
    go(e)
    return n[0]

def count_uses_stmts(stmts, name):
    return count_uses_expr(("block", tuple(stmts), None, ""), name)

def rebinds(stmts, name):
    """does any pattern inside these statements bind `name` again (shadowing)?"""
    found = [False]
    def fp(p):
        if name in pat_binders(p):
            found[0] = True
        return p
    def go(x):
        map_expr(x, go, fp)
        return x
    go(("block", tuple(stmts), None, ""))
    return found[0]

def substitute(e, mapping):
    """replaces free variables (single-segment paths) by expressions; inside macro arguments, at token level
    (only when the replacement is a plain token list). Shadowing is NOT handled: callers make sure the names are
    not rebound inside e (rebinds) or rename binders first."""
    def go(x):
        if x[0] == "path" and len(x[1]) == 1 and x[1][0][1] is None and x[1][0][0] in mapping:
            return mapping[x[1][0][0]]
        if x[0] == "macro":
            m = {}
            for n, v in mapping.items():
                out = []
                A.pr_expr(v, out)
                if v[0] not in ("path", "lit", "field"):
                    out = ["("] + out + [")"]
                m[n] = out
            return ("macro", x[1], x[2], tuple(R.subst(list(x[3]), m)))
        if x[0] == "struct":
            # the shorthand field `x` has been expanded to `x: x` by the parser: only the value is a variable
            pass
        return map_expr(x, go)
    return go(e)

# ============================================================================ local rewrites
SWAP_CMP = {">": "<", ">=": "<=", "<": ">", "<=": ">="}
NEG_CMP = {"==": "!=", "!=": "==", "<": ">=", ">=": "<", ">": "<=", "<=": ">"}

def negate(c):
    """the logical negation of a condition, or None when it has no direct form"""
    if c[0] == "unary" and c[1] == "!":
        return c[2]
    if c[0] == "binary" and c[1] in NEG_CMP and is_pure(c[2]) and is_pure(c[3]):
        return ("binary", NEG_CMP[c[1]], c[2], c[3])
    if c[0] == "binary" and c[1] in ("==", "!="):
        return ("binary", NEG_CMP[c[1]], c[2], c[3])
    if c[0] == "mcall" and c[2] in ("is_some", "is_none", "is_ok", "is_err") and not c[4]:
        return ("mcall", c[1], {"is_some": "is_none", "is_none": "is_some", "is_ok": "is_err", "is_err": "is_ok"}[c[2]], c[3], c[4])
    return None

def canon_cmp(c):
    """`a > b` -> `b < a`, `a >= b` -> `b <= a` (pure operands)"""
    if c[0] == "binary" and c[1] in (">", ">=") and is_pure(c[2]) and is_pure(c[3]):
        return ("binary", SWAP_CMP[c[1]], c[3], c[2])
    return c

def sort_eq_operands(e):
    """the operands of `==` / `!=` in the order of their text, when both are pure (to be applied AFTER the locals
    have been renamed, so that the order does not depend on the names chosen in the source)"""
    def key(x):
        # the placeholders of the rule templates (__N__ ..) stand for literals: they sort like one
        return re.sub(r"\b__[A-Z0-9]+__\b", "0", A.text(x))
    def go(x):
        x = map_expr(x, go)
        if x[0] == "binary" and x[1] in ("==", "!=") and is_pure(x[2]) and is_pure(x[3]) and key(x[3]) < key(x[2]):
            return ("binary", x[1], x[3], x[2])
        return x
    return go(e)

def as_block(e):
    if e[0] == "block" and not e[2] and not e[3]:
        return e
    return ("block", (("expr", e),), None, "")

def unwrap_block(e):
    """{ e } -> e"""
    while e[0] == "block" and not e[2] and not e[3] and len(e[1]) == 1 and e[1][0][0] == "expr":
        e = e[1][0][1]
    return e

def local_rewrite(e):
    """one bottom-up step of the rewrites that need no context"""
    k = e[0]
    if k == "call" and e[1][0] == "path" and len(e[1][1]) == 2 and e[1][1][0][0] in PRIM_NUM and e[1][1][1] == ("from", None) \
            and e[1][1][0][1] is None and len(e[2]) == 1:
        return ("cast", e[2][0], ("ty", (e[1][1][0][0],)))
    if k == "unary" and e[1] == "!" :
        n = None
        if e[2][0] == "binary" and e[2][1] in NEG_CMP:
            n = negate(e[2])
        elif e[2][0] == "unary" and e[2][1] == "!":
            n = None
        if n is not None:
            return canon_cmp(n)
    if k == "binary":
        return canon_cmp(e)
    if k == "try":
        # Ok(e)? is e ; { stmts; e }? is { stmts; e? }
        x = e[1]
        if x[0] == "call" and is_var(x[1], "Ok") and len(x[2]) == 1:
            return x[2][0]
        if x[0] == "block" and not x[2] and not x[3] and x[1] and x[1][-1][0] == "expr":
            return ("block", x[1][:-1] + (("expr", local_rewrite(("try", x[1][-1][1]))),), None, "")
    if k == "closure" and e[3] is None:
        b = unwrap_block(e[4])
        if b is not e[4]:
            return ("closure", e[1], e[2], e[3], b)
    if k == "if":
        return canon_if(e)
    if k == "match":
        return canon_match(e)
    if k == "block":
        return canon_block(e)
    if k in ("call", "mcall", "tuple", "array", "struct", "field", "index", "cast", "asc", "unary", "return", "assign"):
        # a block that holds one expression, in operand position
        return map_expr(e, lambda x: unwrap_block(x) if x[0] == "block" else x)
    return e

def canon_if(e):
    cond, then, els = e[1], e[2], e[3]
    if cond[0] == "letcond":
        # if let P = x { A } else { B }  ==  match x { P => A, _ => B }
        other = els if els is not None else ("block", (), None, "")
        return canon_match(("match", cond[2], ((cond[1], None, unwrap_block(then)), (("p_wild",), None, unwrap_block(other)))))
    if cond[0] == "binary" and cond[1] == "&&" and A._has_letcond(cond):
        return e
    if els is not None:
        flip = False
        c = cond
        if c[0] == "unary" and c[1] == "!":
            c, flip = c[2], True
        elif c[0] == "binary" and c[1] == "!=":
            c, flip = ("binary", "==", c[2], c[3]), True
        elif c[0] == "binary" and c[1] == "<=" and is_pure(c[2]) and is_pure(c[3]):
            c, flip = ("binary", "<", c[3], c[2]), True
        elif c[0] == "mcall" and c[2] in ("is_none", "is_err") and not c[4]:
            c, flip = negate(c), True
        if flip:
            new_then = as_block(els) if els[0] != "if" else ("block", (("expr", els),), None, "")
            return ("if", canon_cmp(c), new_then, then)
    return ("if", cond, then, els)

def _ctor_key(p):
    """the constructor of a pattern when it has one: (name, arity kind) ; None for anything that may overlap"""
    k = p[0]
    if k == "p_ref":
        return _ctor_key(p[2])
    if k == "p_ident" and p[4] is not None:
        return _ctor_key(p[4])
    if k in ("p_path", "p_ts", "p_struct"):
        path = p[1]
        segs = path[1] if path[0] == "path" else path[2]
        name = segs[-1][0]
        if name[:1].isupper():
            return "::".join(n for n, _ in segs[-1:])
        return None
    if k == "p_lit":
        return "=" + " ".join(p[1])
    return None

def _is_catch_all(p):
    return p[0] == "p_wild" or (p[0] == "p_ident" and p[4] is None and not p[3][:1].isupper())

COMPLEMENT = {"Some": ("p_path", ("path", (("None", None),))),
              "None": ("p_ts", ("path", (("Some", None),)), (("p_wild",),)),
              "Ok": ("p_ts", ("path", (("Err", None),)), (("p_wild",),)),
              "Err": ("p_ts", ("path", (("Ok", None),)), (("p_wild",),))}

def canon_match(e):
    scrut, arms = e[1], list(e[2])
    # top-level or-patterns -> one arm per alternative (same guard, same body)
    out = []
    for p, g, b in arms:
        if p[0] == "p_or":
            for q in p[1]:
                out.append((q, g, b))
        else:
            out.append((p, g, b))
    arms = out
    # match s { P => A, _ => match s { Q => B, _ => C } }  is  match s { P => A, Q => B, _ => C }   (s a pure place)
    while arms and arms[-1][0] == ("p_wild",) and arms[-1][1] is None and is_pure(scrut) and _is_place_expr(scrut):
        inner = unwrap_block(arms[-1][2])
        if inner[0] == "match" and inner[1] == scrut and inner[2]:
            arms = arms[:-1] + list(inner[2])
        else:
            break
    # `_` next to the single constructor of a two-constructor std enum
    if len(arms) == 2 and arms[1][0] == ("p_wild",) and arms[1][1] is None and arms[0][1] is None:
        ck = _ctor_key(arms[0][0])
        if ck in COMPLEMENT and arms[0][0][0] in ("p_ts", "p_path") and _irrefutable_payload(arms[0][0]):
            arms[1] = (COMPLEMENT[ck], None, arms[1][2])
    # sort when the arms cannot overlap: distinct constructors, no guards, at most one catch-all in last position
    keys = [_ctor_key(p) for p, _, _ in arms]
    body = arms
    tailarm = []
    if arms and _is_catch_all(arms[-1][0]) and arms[-1][1] is None:
        body, tailarm = arms[:-1], [arms[-1]]
        keys = keys[:-1]
    if body and all(k is not None for k in keys) and len(set(keys)) == len(keys) and all(g is None for _, g, _ in body) \
            and all(_irrefutable_payload(p) or True for p, _, _ in body):
        body = [a for _, a in sorted(zip(keys, body), key=lambda z: z[0])]
        arms = body + tailarm
    arms = tuple((p, g, unwrap_block(b)) for p, g, b in arms)
    return ("match", scrut, arms)

def _is_place_expr(e):
    while e[0] == "unary" and e[1] == "*":
        e = e[2]
    return is_place(e)

def _irrefutable_payload(p):
    """Some(x) / Some((a, b)) / Some(_): the payload matches everything (so that `_` is exactly the other constructor)"""
    if p[0] == "p_path":
        return True
    if p[0] == "p_ts":
        return all(_irrefutable(q) for q in p[2])
    return False

def _irrefutable(q):
    k = q[0]
    if k in ("p_wild", "p_rest"):
        return True
    if k == "p_ident":
        return q[4] is None or _irrefutable(q[4])
    if k == "p_tuple":
        return all(_irrefutable(x) for x in q[1])
    if k == "p_ref":
        return _irrefutable(q[2])
    return False

def _diverges(b):
    """a block that ends with `return ..;` (the only divergence this module rewrites)"""
    if b[0] != "block" or not b[1]:
        return False
    s = b[1][-1]
    return s[0] in ("semi", "expr") and s[1][0] == "return"

def canon_block(e):
    if e[0] != "block":
        return e
    stmts = list(e[1])
    # flatten: a block statement without value `{ a; b; }` stays; `let P = { stmts; x };` -> stmts; let P = x;
    out = []
    for s in stmts:
        if s[0] == "let" and s[3] is not None and s[4] is None and s[3][0] == "block" and not s[3][2] and not s[3][3] \
                and s[3][1] and s[3][1][-1][0] == "expr" and len(s[3][1]) > 1 and not _block_names_clash(s[3][1][:-1], stmts, s):
            out.extend(s[3][1][:-1])
            out.append(("let", s[1], s[2], s[3][1][-1][1], None))
            continue
        if s[0] == "let" and s[3] is not None and s[4] is None and s[1][0] == "p_tuple" and s[3][0] == "tuple" \
                and len(s[1][1]) == len(s[3][1]) and s[2] is None and all(q[0] in ("p_ident", "p_wild") for q in s[1][1]) \
                and all(is_var(x) or is_atomic(x) for x in s[3][1]):
            for q, x in zip(s[1][1], s[3][1]):
                out.append(("let", q, None, x, None))
            continue
        if s[0] == "let" and s[3] is not None:
            s = ("let", s[1], s[2], unwrap_block(s[3]), s[4])
        out.append(s)
    stmts = out
    # { a; { b; c } } is { a; b; c }
    while stmts and stmts[-1][0] == "expr" and stmts[-1][1][0] == "block" and not stmts[-1][1][2] and not stmts[-1][1][3]:
        stmts = stmts[:-1] + list(stmts[-1][1][1])
    return ("block", tuple(stmts), e[2], e[3])

def _block_names_clash(inner, outer_stmts, at):
    """would hoisting the statements of an inner block capture / shadow names used by the statements after `at`?"""
    bound = set()
    for s in inner:
        if s[0] == "let":
            bound.update(pat_binders(s[1]))
        elif s[0] in ("item", "attr"):
            return True
    if not bound:
        return False
    idx = outer_stmts.index(at)
    after = outer_stmts[idx + 1:]
    own = set(pat_binders(at[1]))
    for n in bound:
        if n in own:
            continue
        if count_uses_stmts(after, n):
            return True
    return False

# ---------------------------------------------------------------------------- tail position (`return`)
def tail_returns(block):
    """the body of a function / closure: `return e` in tail position is `e`;
    `if c { ..; return e; } rest..` is `if c { ..; e } else { rest.. }`"""
    def tail_expr(e):
        k = e[0]
        if k == "return" and e[1] is not None:
            return tail_expr(e[1])
        if k == "block" and not e[2] and e[3] in ("",):
            return tail_block(e)
        if k == "if" and e[3] is not None:
            return ("if", e[1], tail_block(e[2]), tail_expr(e[3]) if e[3][0] == "if" else tail_block(as_block(e[3])))
        if k == "match":
            return ("match", e[1], tuple((p, g, unwrap_block(tail_expr(b))) for p, g, b in e[2]))
        return e
    def tail_block(b):
        stmts = list(b[1])
        for i, s in enumerate(stmts):
            if s[0] in ("semi", "expr") and s[1][0] == "if" and s[1][3] is None and _diverges(s[1][2]) and i + 1 < len(stmts) \
                    and s[1][1][0] != "letcond" and not A._has_letcond(s[1][1]):
                then = s[1][2]
                rest = ("block", tuple(stmts[i + 1:]), None, "")
                new_if = ("if", s[1][1], then, rest)
                stmts = stmts[:i] + [("expr", new_if)]
                break
            if s[0] in ("semi", "expr") and s[1][0] == "if" and s[1][3] is None and _diverges(s[1][2]) and i + 1 < len(stmts) \
                    and s[1][1][0] == "letcond":
                rest = ("block", tuple(stmts[i + 1:]), None, "")
                new_if = ("if", s[1][1], s[1][2], rest)
                stmts = stmts[:i] + [("expr", new_if)]
                break
        if stmts and stmts[-1][0] in ("semi", "expr") and stmts[-1][1][0] == "return" and stmts[-1][1][1] is not None:
            stmts[-1] = ("expr", stmts[-1][1][1])
        if stmts and stmts[-1][0] == "expr":
            stmts[-1] = ("expr", tail_expr(stmts[-1][1]))
        return ("block", tuple(stmts), b[2], b[3])
    return tail_block(block)

# ---------------------------------------------------------------------------- let inlining
KNOWN_ARG_TYPES = {}
for _w in ("i8", "i16", "i32", "i64", "i128", "u8", "u16", "u32", "u64", "u128", "f32", "f64", "bool", "char"):
    KNOWN_ARG_TYPES["visit_" + _w] = (_w,)
for _w, _n in (("u16", 2), ("u32", 4), ("u64", 8), ("u128", 16), ("i16", 2), ("i32", 4), ("i64", 8), ("i128", 16), ("f32", 4), ("f64", 8)):
    for _f in ("from_le_bytes", "from_be_bytes", "from_ne_bytes"):
        KNOWN_ARG_TYPES[_w + "::" + _f] = ("[ u8 ; %d ]" % _n,)

def drop_redundant_asc(e):
    """__asc(x, T) where the position already fixes the type T"""
    def strip(x, want):
        if x[0] == "asc" and " ".join(x[2][1]) == want:
            return x[1]
        return x
    def go(x):
        x = map_expr(x, go)
        if x[0] == "mcall" and x[2] in KNOWN_ARG_TYPES and len(x[4]) == len(KNOWN_ARG_TYPES[x[2]]):
            return ("mcall", x[1], x[2], x[3], tuple(strip(a, w) for a, w in zip(x[4], KNOWN_ARG_TYPES[x[2]])))
        if x[0] == "call" and x[1][0] == "path":
            name = "::".join(n for n, _ in x[1][1])
            if name in KNOWN_ARG_TYPES and len(x[2]) == len(KNOWN_ARG_TYPES[name]):
                return ("call", x[1], tuple(strip(a, w) for a, w in zip(x[2], KNOWN_ARG_TYPES[name])))
        if x[0] == "asc" and x[1][0] == "cast" and x[1][2] == x[2]:
            return x[1]
        if x[0] == "asc" and x[1][0] == "asc" and x[1][2] == x[2]:
            return x[1]
        if x[0] == "block":
            ss = []
            for s in x[1]:
                if s[0] == "let" and s[2] is not None and s[3] is not None and s[3][0] == "asc" and s[3][2] == s[2]:
                    s = ("let", s[1], s[2], s[3][1], s[4])
                ss.append(s)
            return ("block", tuple(ss), x[2], x[3])
        return x
    return go(e)

def inline_lets(block):
    """one pass over a block's statements (not recursive): substitutes the lets that qualify"""
    stmts = list(block[1])
    changed = True
    while changed:
        changed = False
        for i, s in enumerate(stmts):
            if s[0] != "let" or s[3] is None or s[4] is not None:
                continue
            p = s[1]
            if p[0] != "p_ident" or p[1] or p[2] or p[4] is not None:
                continue
            name, init = p[3], s[3]
            rest = stmts[i + 1:]
            if not rest:
                continue
            n = count_uses_stmts(rest, name)
            if n == 0:
                continue
            if rebinds(rest, name):
                continue
            repl = init if s[2] is None else ("asc", init, s[2])
            if is_atomic(init) and s[2] is None:
                ok = True
            elif is_var(init) and s[2] is None and not init[1][0][0][:1].isupper() and not _assigned(rest, init[1][0][0]):
                ok = True          # `let a = b;` (a not mut, b not modified afterwards) renames b
            elif n == 1 and first_evaluated(rest, name):
                ok = True
            else:
                ok = False
            if not ok:
                continue
            if any(_macro_mentions(x, name) for x in rest) and repl[0] not in ("path", "lit"):
                continue
            new_rest = list(substitute(("block", tuple(rest), None, ""), {name: repl})[1])
            stmts = stmts[:i] + new_rest
            changed = True
            break
    return ("block", tuple(stmts), block[2], block[3])

def _assigned(stmts, name):
    found = [False]
    def go(x):
        if x[0] == "assign":
            root = x[2]
            while root[0] in ("field", "index"):
                root = root[1]
            if is_var(root, name):
                found[0] = True
        if x[0] == "unary" and x[1] == "&mut":
            root = x[2]
            while root[0] in ("field", "index"):
                root = root[1]
            if is_var(root, name):
                found[0] = True
        if x[0] == "mcall":
            root = x[1]
            while root[0] in ("field", "index"):
                root = root[1]
            if is_var(root, name) and x[2] not in PURE_METHODS:
                found[0] = True
        map_expr(x, go)
        return x
    go(("block", tuple(stmts), None, ""))
    return found[0]

def _macro_mentions(stmt, name):
    found = [False]
    def go(x):
        if x[0] == "macro" and name in x[3]:
            found[0] = True
        map_expr(x, go)
        return x
    map_stmt(stmt, go) if stmt[0] != "item" else None
    return found[0]

ALIAS_OPS = ("&", "&mut", "*")

def _alias_target(e):
    """`self.<field>` possibly under & / &mut / * (a reborrow): the place it names, else None"""
    while e[0] == "unary" and e[1] in ALIAS_OPS:
        e = e[2]
    if e[0] == "field" and is_var(e[1], "self") and A.is_ident(e[2]):
        return e
    return None

def take_aliases(block):
    """leading `let [mut] name = [&mut *] self.<field>;` statements are substituted in the rest of the block"""
    stmts = list(block[1])
    mapping = {}
    while stmts:
        s = stmts[0]
        if s[0] == "let" and s[1][0] == "p_ident" and not s[1][1] and s[1][4] is None and s[2] is None and s[3] is not None \
                and s[4] is None:
            tgt = _alias_target(s[3])
            if tgt is not None and not rebinds(stmts[1:], s[1][3]):
                mapping[s[1][3]] = tgt
                stmts.pop(0)
                continue
        break
    if not mapping:
        return block
    return substitute(("block", tuple(stmts), block[2], block[3]), mapping)

# ---------------------------------------------------------------------------- the whole pipeline
def simplify(e):
    """local rewrites + let inlining, to a fixpoint"""
    for _ in range(40):
        def step(x):
            x = local_rewrite(x)
            if x[0] == "block":
                x = inline_lets(take_aliases(x)) if not x[3] else x
            return x
        new = bottom_up(e, step)
        new = drop_redundant_asc(new)
        if new == e:
            return new
        e = new
    return e

def normalize_body(block, env=None, path=None, self_type=None):
    """a function body (("block", ..)) -> its normal form (locals not yet renamed)"""
    b = resolve_consts(block, env, path)
    if self_type:
        b = replace_self_type(b, self_type)
    b = simplify(b)
    def closures(x):
        # `return` inside a closure returns from the closure: its body has its own tail position
        if x[0] == "closure":
            return ("closure", x[1], x[2], x[3], unwrap_block(tail_returns(as_block(x[4]))))
        return x
    for _ in range(8):
        nb = simplify(bottom_up(tail_returns(b), closures))
        if nb == b:
            break
        b = nb
    return b

def replace_self_type(e, self_type):
    """`Self { .. }` / `Self::f(..)` -> the name of the impl's type"""
    def fix(p):
        if p[0] == "path" and p[1] and p[1][0] == ("Self", None):
            return ("path", ((self_type, None),) + p[1][1:])
        return p
    def go(x):
        x = map_expr(x, go)
        if x[0] == "struct":
            return ("struct", fix(x[1]), x[2], x[3])
        if x[0] == "path" and len(x[1]) > 1:
            return fix(x)
        return x
    return go(e)

# ============================================================================ renaming of locals
class Renamer:
    """renames every locally bound name in binding order: let-bound __l<i>, closure parameters __c<i>, names bound by
    the patterns of inner matches / if let / for __m<i>. `outer` maps the names bound outside (parameters, the
    bindings of the dispatch arm) to token lists."""
    def __init__(self, outer=None):
        self.n = {"l": 0, "c": 0, "m": 0}
        self.outer = dict(outer or {})

    def fresh(self, kind):
        v = "__%s%d" % (kind, self.n[kind])
        self.n[kind] += 1
        return v

    def pat(self, p, scope, kind):
        """renames the binders of p, extends scope (a dict, mutated)"""
        names = []
        def collect(q):
            k = q[0]
            if k == "p_ident":
                looks_const = q[3][:1].isupper()
                if looks_const and q[4] is None and not q[1] and not q[2]:
                    return q          # a unit struct / const pattern, not a binding
                new = None
                for old, nn in names:
                    if old == q[3]:
                        new = nn
                if new is None:
                    new = self.fresh(kind)
                    names.append((q[3], new))
                return ("p_ident", q[1], q[2], new, None if q[4] is None else collect(q[4]))
            if k == "p_struct":
                return ("p_struct", q[1], tuple((n, collect(x)) for n, x in q[2]), q[3])
            return map_pat(q, collect)
        np = collect(p)
        for old, new in names:
            scope[old] = ("path", ((new, None),))
        return np

    def expr(self, e, scope):
        k = e[0]
        if k == "path":
            if len(e[1]) == 1 and e[1][0][1] is None and e[1][0][0] in scope:
                return scope[e[1][0][0]]
            return e
        if k == "macro":
            m = {}
            for n, v in scope.items():
                out = []
                A.pr_expr(v, out)
                m[n] = out
            return ("macro", e[1], e[2], tuple(R.subst(list(e[3]), m)))
        if k == "closure":
            sc = dict(scope)
            params = tuple((self.pat(p, sc, "c"), t) for p, t in e[2])
            return ("closure", e[1], params, e[3], self.expr(e[4], sc))
        if k == "block":
            return self.block(e, scope)
        if k == "match":
            scrut = self.expr(e[1], scope)
            arms = []
            for p, g, b in e[2]:
                sc = dict(scope)
                np = self.pat(p, sc, "m")
                arms.append((np, None if g is None else self.cond(g, sc), self.expr(b, sc)))
            return ("match", scrut, tuple(arms))
        if k == "if":
            sc = dict(scope)
            c = self.cond(e[1], sc)
            return ("if", c, self.expr(e[2], sc), None if e[3] is None else self.expr(e[3], scope))
        if k == "while":
            sc = dict(scope)
            c = self.cond(e[1], sc)
            return ("while", c, self.expr(e[2], sc), e[3])
        if k == "for":
            it = self.expr(e[2], scope)
            sc = dict(scope)
            p = self.pat(e[1], sc, "m")
            return ("for", p, it, self.expr(e[3], sc), e[4])
        if k == "struct":
            return ("struct", e[1], tuple((n, self.expr(v, scope)) for n, v in e[2]),
                    None if e[3] is None else self.expr(e[3], scope))
        return map_expr(e, lambda x: self.expr(x, scope))

    def cond(self, c, scope):
        if c[0] == "letcond":
            v = self.expr(c[2], scope)
            p = self.pat(c[1], scope, "m")
            return ("letcond", p, v)
        if c[0] == "binary" and c[1] == "&&" and A._has_letcond(c):
            l = self.cond(c[2], scope)
            r = self.cond(c[3], scope)
            return ("binary", "&&", l, r)
        return self.expr(c, scope)

    def block(self, b, scope):
        sc = dict(scope)
        out = []
        for s in b[1]:
            out.append(self.stmt(s, sc))
        return ("block", tuple(out), b[2], b[3])

    def stmt(self, s, sc):
        if s[0] == "let":
            init = None if s[3] is None else self.expr(s[3], sc)
            els = None if s[4] is None else self.expr(s[4], sc)
            p = self.pat(s[1], sc, "l")
            return ("let", p, s[2], init, els)
        if s[0] in ("expr", "semi"):
            return (s[0], self.expr(s[1], sc))
        if s[0] == "attr":
            return ("attr", s[1], self.stmt(s[2], sc))
        return s

def rename_locals(e, outer=None):
    """outer: {source name: token list} for the names bound outside e"""
    r = Renamer()
    scope = {}
    for n, toks in (outer or {}).items():
        scope[n] = _toks_expr(toks)
    return r.expr(e, scope)

def _toks_expr(toks):
    toks = list(toks)
    if len(toks) == 1:
        return ("path", ((toks[0], None),))
    return A.parse_expr_tokens(toks)

def blank_strings(e):
    """message texts carry no behaviour the tables describe: string literals -> "_" (also inside macro arguments)"""
    def go(x):
        if x[0] == "lit" and (x[1].startswith('"') or x[1].startswith('r"') or x[1].startswith('r#')):
            return ("lit", '"_"')
        if x[0] == "macro":
            return ("macro", x[1], x[2], tuple(R.blank_strings(list(x[3]))))
        if x[0] == "block":
            x = ("block", tuple(_canon_item(st) for st in x[1]), x[2], x[3])
        return map_expr(x, go)
    return go(e)

def _canon_item(st):
    """an item declared inside a function body is kept as tokens: trailing commas dropped"""
    if st[0] == "item":
        return ("item", tuple(R.drop_trailing_commas(list(st[1]))))
    if st[0] == "attr":
        return ("attr", st[1], _canon_item(st[2]))
    return st

# ============================================================================ helpers of the same file
COMMON_METHOD_NAMES = {"new", "len", "from", "into", "default", "clone", "fmt", "write", "read", "next", "get", "map", "iter",
                       "as_ref", "drop", "deref", "eq", "hash", "cmp", "finish", "flush", "push", "insert", "serialize",
                       "deserialize"}

class Helpers:
    """the private fns of one file that a call may be replaced with"""
    def __init__(self, items, env=None, path=None):
        self.by_name = {}
        for fn in items.fns:
            self.by_name.setdefault(fn.name, []).append(fn)
        self.env, self.path = env, path
        self.counter = 0

    def candidate(self, name, method):
        fns = [f for f in self.by_name.get(name, []) if f.body is not None]
        if len(fns) != 1:
            return None
        f = fns[0]
        if f.owner is not None and f.owner[0] is not None:
            return None              # a trait method (impl Trait for T / trait default): dispatch depends on the type
        if method != f.has_self():
            return None
        if method and name in COMMON_METHOD_NAMES:
            return None
        return f

    def body_of(self, f):
        b = A.parse_block_tokens(f.body)
        self_type = f.owner[1] if f.owner else None
        return normalize_body(b, self.env, self.path, self_type)

def _has_node(e, kinds, skip_closures=True):
    found = [False]
    def go(x):
        if x[0] in kinds:
            found[0] = True
        if skip_closures and x[0] == "closure":
            return x
        map_expr(x, go)
        return x
    go(e)
    return found[0]

def _err_type(ret, assoc):
    """the error type of a `Result<T, E>` return type (token list, `Self::X` resolved through the impl's
    associated types), or None"""
    if not ret:
        return None
    t = list(ret)
    out, i = [], 0
    while i < len(t):
        if t[i] == "Self" and i + 2 < len(t) and t[i + 1] == "::" and t[i + 2] in assoc:
            out.extend(assoc[t[i + 2]]); i += 3
        else:
            out.append(t[i]); i += 1
    t = out
    if "Result" not in t:
        return None
    k = t.index("Result")
    if k + 1 >= len(t) or t[k + 1] != "<":
        return None
    depth, start, commas = 0, k + 2, []
    for j in range(k + 1, len(t)):
        if t[j] in ("<", "(", "["):
            depth += 1
        elif t[j] in (">", ")", "]"):
            depth -= 1
            if depth == 0:
                end = j
                break
        elif t[j] == "," and depth == 1:
            commas.append(j)
    else:
        return None
    if len(commas) != 1:
        return None
    return tuple(t[commas[0] + 1:end])

def inline_helpers(body, helpers, caller, max_rounds=3):
    """replaces calls of same-file private fns by their bodies (see the module docstring for the conditions);
    `caller`: the rustast.Fn whose body this is (for the error type). Returns the new body (not yet simplified)."""
    caller_err = _err_type(caller.ret, caller.assoc) if caller is not None else None
    def try_inline(call, position):
        """position: 'tail' | 'try' | 'other'"""
        if call[0] == "call" and call[1][0] == "path":
            segs = call[1][1]
            if len(segs) == 1 or (len(segs) == 2 and segs[0][0] in ("Self", "self", "super") or
                                  (len(segs) == 2 and caller is not None and caller.owner and segs[0][0] == caller.owner[1])):
                name, gargs = segs[-1]
                f = helpers.candidate(name, False)
                recv, args = None, call[2]
            else:
                return None
        elif call[0] == "mcall":
            name, gargs = call[2], call[3]
            f = helpers.candidate(name, True)
            recv, args = call[1], call[4]
        else:
            return None
        if f is None or (caller is not None and f is caller):
            return None
        params = f.params[1:] if f.has_self() else f.params
        if len(params) != len(args):
            return None
        try:
            hb = helpers.body_of(f)
        except ShapeError:
            return None
        if _has_node(hb, ("return",)):
            return None
        if _has_node(hb, ("try",)):
            if position not in ("tail", "try"):
                return None
            he = _err_type(f.ret, f.assoc)
            if he is None or caller_err is None or he != caller_err:
                return None
        # fresh names for everything the helper binds, so that the arguments cannot be captured
        helpers.counter += 1
        tag = "__h%d_" % helpers.counter
        lets = []
        ren = {}
        for (ptoks, ttoks), a in zip(params, args):
            q = [x for x in ptoks]
            mut = False
            if q[:1] == ["mut"]:
                mut, q = True, q[1:]
            if len(q) != 1 or not A.is_ident(q[0]):
                if q == ["_"]:
                    lets.append(("semi", a)) if not is_pure(a) else None
                    continue
                return None
            ren[q[0]] = tag + q[0]
            lets.append(("let", ("p_ident", False, mut, tag + q[0], None), None, a, None))
        hb = _prefix_binders(hb, tag)
        hb = substitute(hb, {n: path_of(v) for n, v in ren.items()})
        if f.has_self():
            if not is_place(recv) and not (recv[0] == "unary" and recv[1] in ("&", "&mut") and is_place(recv[2])):
                return None
            r = recv
            hb = substitute(hb, {"self": r})
        # generic arguments given with a turbofish
        tps = f.type_params()
        if gargs is not None:
            if len(gargs) != len(tps):
                return None
            hb = _subst_type_names(hb, dict(zip(tps, gargs)))
        return ("block", tuple(lets) + hb[1], None, "")
    def walk(e, position):
        k = e[0]
        if k in ("call", "mcall"):
            r = try_inline(e, position)
            if r is not None:
                return r
        if k == "try":
            inner = e[1]
            if inner[0] in ("call", "mcall"):
                r = try_inline(inner, "try")
                if r is not None:
                    return ("try", r)
            return ("try", walk(inner, "other"))
        if k == "block":
            ss = []
            for i, s in enumerate(e[1]):
                last = i + 1 == len(e[1])
                if s[0] == "expr" and last:
                    ss.append(("expr", walk(s[1], position)))
                else:
                    ss.append(map_stmt(s, lambda x: walk(x, "other")))
            return ("block", tuple(ss), e[2], e[3])
        if k == "if":
            return ("if", walk(e[1], "other"), walk(e[2], position), None if e[3] is None else walk(e[3], position))
        if k == "match":
            return ("match", walk(e[1], "other"), tuple((p, None if g is None else walk(g, "other"), walk(b, position)) for p, g, b in e[2]))
        if k == "closure":
            # inside a closure only helpers without `?` / `return` are replaced (position "other")
            return ("closure", e[1], e[2], e[3], walk(e[4], "other"))
        return map_expr(e, lambda x: walk(x, "other"))
    return walk(body, "tail")

def _prefix_binders(e, tag):
    """renames every name bound inside e (lets, closure parameters, match / if let / for patterns) to tag+name"""
    names = set()
    def fp(p):
        for n in pat_binders(p):
            if not n[:1].isupper():
                names.add(n)
        return p
    def go(x):
        map_expr(x, go, fp)
        return x
    go(e)
    if not names:
        return e
    def rp(p):
        if p[0] == "p_ident" and p[3] in names:
            return ("p_ident", p[1], p[2], tag + p[3], None if p[4] is None else rp(p[4]))
        if p[0] == "p_struct":
            return ("p_struct", p[1], tuple((n, rp(q)) for n, q in p[2]), p[3])
        return map_pat(p, rp)
    def rx(x):
        if x[0] == "path" and len(x[1]) == 1 and x[1][0][1] is None and x[1][0][0] in names:
            return path_of(tag + x[1][0][0])
        if x[0] == "macro":
            return ("macro", x[1], x[2], tuple(R.subst(list(x[3]), {n: [tag + n] for n in names})))
        return map_expr(x, rx, rp)
    return rx(e)

def _subst_type_names(e, mapping):
    def ft(t):
        out = []
        for x in t[1]:
            if x in mapping:
                out.extend(mapping[x][1])
            else:
                out.append(x)
        return ("ty", tuple(out))
    def go(x):
        x = map_expr(x, go, None, ft)
        if x[0] == "path" and x[1][0][0] in mapping and x[1][0][1] is None and len(mapping[x[1][0][0]][1]) == 1:
            return ("path", ((mapping[x[1][0][0]][1][0], None),) + x[1][1:])
        return x
    return go(e)

# ============================================================================ canonical text
def canonical(e, outer=None, blank=True):
    """normal form -> the final canonical expression: locals renamed, == operands ordered, message strings blanked"""
    e = rename_locals(e, outer)
    e = sort_eq_operands(e)
    return blank_strings(e) if blank else e

def canonical_text(e, outer=None, statements=False, blank=True):
    e = canonical(e, outer, blank)
    out = []
    if statements and e[0] == "block" and not e[2] and not e[3]:
        A.pr_stmts(e[1], out)
    else:
        A.pr_expr(unwrap_block(e), out)
    return " ".join(out)
