"""A small parser for the fragment of Rust that the translated regions of the crate use (function bodies:
expressions, statements, patterns; types are kept as token lists), a printer back to the token text the
dispatch translators classify, and a token-level scanner for the items of a file (fns, consts, impls).

The AST is made of tuples (hashable, comparable):

  expressions  ("lit", tok) ("path", segs) ("qpath", ty_toks, segs) ("call", f, args) ("mcall", recv, name, gargs, args)
               ("field", e, name) ("index", e, i) ("try", e) ("unary", op, e) ("binary", op, l, r) ("assign", op, l, r)
               ("cast", e, ty) ("asc", e, ty) ("range", lo, hi, op) ("closure", move, params, ret, body)
               ("block", stmts, label, kind) ("if", cond, then, else) ("letcond", pat, e) ("match", scrut, arms)
               ("while", cond, body, label) ("loop", body, label) ("for", pat, iter, body, label)
               ("break", label, e) ("continue", label) ("return", e) ("macro", path_toks, delim, toks)
               ("struct", path, fields, base) ("tuple", es) ("array", es) ("repeat", e, n)
     segs: tuple of (ident, gargs) ; gargs: None or tuple of types ; a type: ("ty", toks)
     params of a closure: tuple of (pat, ty or None); arms: tuple of (pat, guard or None, body)
     fields of a struct literal: tuple of (name, expr)   (the shorthand `x` is stored as (x, path x))
  statements   ("let", pat, ty, init, else_block) ("expr", e) ("semi", e) ("item", toks) ("attr", toks, stmt)
     a block's stmts end with ("expr", e) when the block has a value
  patterns     ("p_wild",) ("p_rest",) ("p_ident", byref, mut, name, sub) ("p_lit", toks) ("p_range", lo, hi, op)
               ("p_ref", mut, pat) ("p_tuple", pats) ("p_path", path) ("p_ts", path, pats)
               ("p_struct", path, fields, rest) ("p_or", alts) ("p_slice", pats) ("p_macro", path_toks, delim, toks)
               ("p_attr", attribute toks, pat)   (an arm with an attribute)
     fields of a struct pattern: tuple of (name, pat)   (shorthand `x` / `ref x`: (x, p_ident))

Anything outside the fragment raises ShapeError (the caller turns it into an 'unknown' row / a broken tie)."""
import re
from rustmatch import ShapeError, tokenize, match_close, OPEN, CLOSE

IDENT = re.compile(r"^(?:r#)?[A-Za-z_][A-Za-z0-9_]*$")
KEYWORDS = {"as", "break", "const", "continue", "crate", "else", "enum", "extern", "false", "fn", "for", "if", "impl",
            "in", "let", "loop", "match", "mod", "move", "mut", "pub", "ref", "return", "self", "Self", "static",
            "struct", "super", "trait", "true", "type", "unsafe", "use", "where", "while", "dyn", "async", "await"}
PATH_START_KW = {"self", "Self", "crate", "super"}

def is_ident(t):
    return t is not None and IDENT.match(t) is not None and t not in KEYWORDS

def is_lifetime(t):
    return t is not None and len(t) > 1 and t[0] == "'" and not t.endswith("'")

def is_literal(t):
    if t is None:
        return False
    return (t[0].isdigit() or t[0] == '"' or t.startswith('b"') or t.startswith("b'") or t.startswith('r"')
            or t.startswith('r#"') or t.startswith('br') and ('"' in t) or (t[0] == "'" and t.endswith("'") and len(t) > 2)
            or t in ("true", "false"))

BINOPS = {"*": 11, "/": 11, "%": 11, "+": 10, "-": 10, "<<": 9, ">>": 9, "&": 8, "^": 7, "|": 6,
          "==": 5, "!=": 5, "<": 5, ">": 5, "<=": 5, ">=": 5, "&&": 4, "||": 3}
ASSIGN_OPS = {"=", "+=", "-=", "*=", "/=", "%=", "^=", "&=", "|=", "<<=", ">>="}
P_UNARY, P_CAST, P_RANGE, P_ASSIGN, P_POSTFIX, P_LOWEST = 13, 12, 2, 1, 14, 0

class Parser:
    def __init__(self, toks):
        self.t, self.i = list(toks), 0

    # ------------------------------------------------------------ token helpers
    def peek(self, k=0):
        j = self.i + k
        return self.t[j] if j < len(self.t) else None
    def eat(self, x=None):
        v = self.peek()
        if v is None or (x is not None and v != x):
            raise ShapeError("expected %r, got %r near `%s`" % (x, v, " ".join(self.t[max(0, self.i - 6):self.i + 4])))
        self.i += 1
        return v
    def at_end(self):
        return self.i >= len(self.t)

    # ------------------------------------------------------------ types (token level)
    def angle_close(self, i):
        """self.t[i] == '<': index of the matching '>' (brackets inside are skipped; '->' is one token)"""
        depth, k = 0, i
        while k < len(self.t):
            x = self.t[k]
            if x in OPEN:
                k = match_close(self.t, k) + 1
                continue
            if x == "<":
                depth += 1
            elif x == ">":
                depth -= 1
                if depth == 0:
                    return k
            elif x in (">=", ">>="):
                raise ShapeError("generic arguments followed by %s" % x)
            elif x in (";", "{"):
                break
            k += 1
        raise ShapeError("unbalanced <")

    def generic_args(self):
        """at '<': -> tuple of types (lifetimes and const arguments included, as token lists)"""
        e = self.angle_close(self.i)
        inner = self.t[self.i + 1:e]
        self.i = e + 1
        args, cur, depth, k = [], [], 0, 0
        while k < len(inner):
            x = inner[k]
            if x in OPEN:
                j = match_close(inner, k)
                cur.extend(inner[k:j + 1]); k = j + 1
                continue
            if x == "<":
                depth += 1
            elif x == ">":
                depth -= 1
            if x == "," and depth == 0:
                args.append(("ty", tuple(cur))); cur = []
            else:
                cur.append(x)
            k += 1
        if cur:
            args.append(("ty", tuple(cur)))
        return tuple(args)

    def type_(self):
        """consumes one type, returns ("ty", toks)"""
        s = self.i
        self._skip_type()
        return ("ty", tuple(self.t[s:self.i]))

    def _skip_type(self):
        x = self.peek()
        if x is None:
            raise ShapeError("type expected")
        if x == "&" or x == "&&":
            self.i += 1
            if is_lifetime(self.peek()):
                self.i += 1
            if self.peek() == "mut":
                self.i += 1
            return self._skip_type()
        if x == "*" and self.peek(1) in ("const", "mut"):
            self.i += 2
            return self._skip_type()
        if x in ("(", "["):
            self.i = match_close(self.t, self.i) + 1
            return
        if x in ("!", "_"):
            self.i += 1
            return
        if x in ("dyn", "impl"):
            self.i += 1
            self._skip_type()
            while self.peek() == "+":
                self.i += 1
                self._skip_type()
            return
        if x == "fn" or (x in ("unsafe", "extern") and "fn" in self.t[self.i:self.i + 3]):
            while self.peek() != "(":
                self.i += 1
            self.i = match_close(self.t, self.i) + 1
            if self.peek() == "->":
                self.i += 1
                self._skip_type()
            return
        if x == "<":
            self.i = self.angle_close(self.i) + 1
            if self.peek() != "::":
                raise ShapeError("qualified path type without ::")
        elif is_lifetime(x):
            self.i += 1
            return
        elif x == "::" or is_ident(x) or x in PATH_START_KW:
            if x != "::":
                self.i += 1
        elif x[0].isdigit() or x == "-":           # const generic argument
            self.i += 1 if x != "-" else 2
            return
        else:
            raise ShapeError("type expected, got %r" % x)
        while True:
            if self.peek() == "<":
                self.i = self.angle_close(self.i) + 1
            if self.peek() == "::":
                self.i += 1
                if self.peek() == "<":
                    continue
                if is_ident(self.peek()) or self.peek() in PATH_START_KW:
                    self.i += 1
                    continue
                raise ShapeError("path segment expected in type")
            if self.peek() == "(" and self.t[self.i - 1] in ("Fn", "FnMut", "FnOnce"):
                self.i = match_close(self.t, self.i) + 1
                if self.peek() == "->":
                    self.i += 1
                    self._skip_type()
            return

    # ------------------------------------------------------------ paths
    def path_expr(self):
        """a path in expression position (generic arguments need the turbofish)"""
        if self.peek() == "<":
            e = self.angle_close(self.i)
            q = tuple(self.t[self.i + 1:e])
            self.i = e + 1
            self.eat("::")
            segs = self._segments(True)
            return ("qpath", q, segs)
        lead = ()
        if self.peek() == "::":
            self.i += 1
            lead = (("", None),)
        return ("path", lead + self._segments(True))

    def _segments(self, turbofish):
        segs = []
        while True:
            x = self.peek()
            if not (is_ident(x) or x in PATH_START_KW):
                raise ShapeError("path segment expected, got %r" % x)
            self.i += 1
            g = None
            if turbofish and self.peek() == "::" and self.peek(1) == "<":
                self.i += 1
                g = self.generic_args()
            elif not turbofish and self.peek() == "<":
                g = self.generic_args()
            elif not turbofish and self.peek() == "::" and self.peek(1) == "<":
                self.i += 1
                g = self.generic_args()
            segs.append((x, g))
            if self.peek() == "::" and (is_ident(self.peek(1)) or self.peek(1) in PATH_START_KW):
                self.i += 1
                continue
            return tuple(segs)

    # ------------------------------------------------------------ patterns
    def pattern(self, allow_or=True):
        if allow_or and self.peek() == "|":
            self.i += 1
        p = self._pattern1()
        if allow_or and self.peek() == "|":
            alts = [p]
            while self.peek() == "|":
                self.i += 1
                alts.append(self._pattern1())
            return ("p_or", tuple(alts))
        return p

    def _pattern1(self):
        x = self.peek()
        if x is None:
            raise ShapeError("pattern expected")
        if x == "_":
            self.i += 1
            return ("p_wild",)
        if x == "..":
            self.i += 1
            if self._pat_lit_start():
                hi = self._pat_lit()
                return ("p_range", None, hi, "..")
            return ("p_rest",)
        if x == "..=":
            self.i += 1
            return ("p_range", None, self._pat_lit(), "..=")
        if x in ("&", "&&"):
            self.i += 1
            m = False
            if self.peek() == "mut":
                self.i += 1; m = True
            inner = ("p_ref", m, self._pattern1())
            return ("p_ref", False, inner) if x == "&&" else inner
        if x == "(":
            e = match_close(self.t, self.i)
            sub = Parser(self.t[self.i + 1:e])
            pats, trailing = sub._pat_list()
            self.i = e + 1
            if len(pats) == 1 and not trailing:
                return pats[0]                       # parenthesised pattern
            return ("p_tuple", tuple(pats))
        if x == "[":
            e = match_close(self.t, self.i)
            sub = Parser(self.t[self.i + 1:e])
            pats, _ = sub._pat_list()
            self.i = e + 1
            return ("p_slice", tuple(pats))
        if x in ("ref", "mut") or (is_ident(x) and self.peek(1) != "::" and self.peek(1) not in ("(", "{", "!") and not x[0].isupper()) \
                or (is_ident(x) and self.peek(1) == "@"):
            byref = mut = False
            if self.peek() == "ref":
                self.i += 1; byref = True
            if self.peek() == "mut":
                self.i += 1; mut = True
            name = self.eat()
            if not is_ident(name):
                raise ShapeError("binding name expected, got %r" % name)
            sub = None
            if self.peek() == "@":
                self.i += 1
                sub = self._pattern1()
            return ("p_ident", byref, mut, name, sub)
        if self._pat_lit_start():
            lo = self._pat_lit()
            if self.peek() in ("..=", "..", "..."):
                op = self.eat()
                hi = self._pat_lit() if self._pat_lit_start() else None
                return ("p_range", lo, hi, op)
            return ("p_lit", lo)
        if is_ident(x) or x in PATH_START_KW or x in ("<", "::"):
            if self.peek(1) == "!" and is_ident(x):
                path = (self.eat(),)
                self.eat("!")
                e = match_close(self.t, self.i)
                node = ("p_macro", path, self.t[self.i], tuple(self.t[self.i + 1:e]))
                self.i = e + 1
                return node
            path = self.path_expr()
            if self.peek() == "(":
                e = match_close(self.t, self.i)
                sub = Parser(self.t[self.i + 1:e])
                pats, _ = sub._pat_list()
                self.i = e + 1
                return ("p_ts", path, tuple(pats))
            if self.peek() == "{":
                e = match_close(self.t, self.i)
                sub = Parser(self.t[self.i + 1:e])
                fields, rest = [], False
                while not sub.at_end():
                    if sub.peek() == "..":
                        sub.i += 1; rest = True
                    else:
                        while sub.peek() == "#":
                            sub.i += 1
                            sub.i = match_close(sub.t, sub.i) + 1
                        if (is_ident(sub.peek()) or sub.peek()[0].isdigit()) and sub.peek(1) == ":":
                            fname = sub.eat(); sub.eat(":")
                            fields.append((fname, sub.pattern()))
                        else:
                            p = sub._pattern1()
                            if p[0] != "p_ident":
                                raise ShapeError("struct pattern field not understood")
                            fields.append((p[3], p))
                    if not sub.at_end():
                        sub.eat(",")
                self.i = e + 1
                return ("p_struct", path, tuple(fields), rest)
            if self.peek() in ("..=", "..", "..."):
                op = self.eat()
                hi = self._pat_lit() if self._pat_lit_start() else None
                return ("p_range", ("path", path), hi, op)
            return ("p_path", path)
        raise ShapeError("pattern not understood at %r" % x)

    def _pat_lit_start(self):
        x = self.peek()
        return x is not None and (is_literal(x) or (x == "-" and self.peek(1) is not None and self.peek(1)[0].isdigit()))
    def _pat_lit(self):
        if self.peek() == "-":
            self.i += 1
            return ("-", self.eat())
        if is_literal(self.peek()):
            return (self.eat(),)
        return ("path", self.path_expr())

    def _pat_list(self):
        pats, trailing = [], False
        while not self.at_end():
            pats.append(self.pattern())
            trailing = False
            if not self.at_end():
                self.eat(",")
                trailing = True
        return pats, trailing

    # ------------------------------------------------------------ expressions
    def expr(self, nostruct=False):
        return self._assign(nostruct)

    def _assign(self, ns):
        x = self.peek()
        if x == "return":
            self.i += 1
            if self._expr_start():
                return ("return", self._assign(ns))
            return ("return", None)
        if x == "break":
            self.i += 1
            label = None
            if is_lifetime(self.peek()):
                label = self.eat()
            if self._expr_start() and not (ns and self.peek() == "{"):
                return ("break", label, self._assign(ns))
            return ("break", label, None)
        if x == "continue":
            self.i += 1
            label = None
            if is_lifetime(self.peek()):
                label = self.eat()
            return ("continue", label)
        if x in ("|", "||", "move") or (x == "static" and self.peek(1) in ("|", "||", "move")):
            return self._closure(ns)
        l = self._range(ns)
        if self.peek() in ASSIGN_OPS:
            op = self.eat()
            r = self._assign(ns)
            return ("assign", op, l, r)
        if self.peek() in ("<", ">") and self.peek(1) == self.peek() and self.peek(2) == "=":
            # `<<=` / `>>=` are lexed as one token; nothing to do here (kept for clarity)
            pass
        return l

    def _expr_start(self):
        x = self.peek()
        if x is None or x in (";", ",", ")", "]", "}", "=>"):
            return False
        return True

    def _closure(self, ns):
        mv = False
        if self.peek() == "static":
            self.i += 1
        if self.peek() == "move":
            self.i += 1; mv = True
        params = []
        if self.peek() == "||":
            self.i += 1
        else:
            self.eat("|")
            while self.peek() != "|":
                p = self.pattern(allow_or=False)
                ty = None
                if self.peek() == ":":
                    self.i += 1
                    ty = self.type_()
                params.append((p, ty))
                if self.peek() == ",":
                    self.i += 1
            self.eat("|")
        ret = None
        if self.peek() == "->":
            self.i += 1
            ret = self.type_()
            body = self.block_expr()
        else:
            body = self._assign(ns)
        return ("closure", mv, tuple(params), ret, body)

    def _range(self, ns):
        if self.peek() in ("..", "..="):
            op = self.eat()
            hi = self._binary(0, ns) if self._range_rhs_start(ns) else None
            return ("range", None, hi, op)
        l = self._binary(0, ns)
        if self.peek() in ("..", "..="):
            op = self.eat()
            hi = self._binary(0, ns) if self._range_rhs_start(ns) else None
            return ("range", l, hi, op)
        return l

    def _range_rhs_start(self, ns):
        x = self.peek()
        if x is None or x in (";", ",", ")", "]", "}", "=>", "="):
            return False
        if ns and x == "{":
            return False
        return True

    def _peek_binop(self):
        x = self.peek()
        if x in ("<", ">") and self.peek(1) == x:
            if self.peek(2) == "=" :
                return None, 0
            return x + x, 2
        if x in BINOPS:
            return x, 1
        return None, 0

    def _binary(self, minp, ns):
        l = self._unary(ns)
        while True:
            if self.peek() == "as":
                if P_CAST < minp:
                    return l
                self.i += 1
                l = ("cast", l, self.type_())
                continue
            op, n = self._peek_binop()
            if op is None:
                return l
            p = BINOPS[op]
            if p < minp:
                return l
            self.i += n
            r = self._binary(p + 1, ns)
            l = ("binary", op, l, r)

    def _unary(self, ns):
        x = self.peek()
        if x in ("-", "!", "*"):
            self.i += 1
            return ("unary", x, self._unary_operand(ns))
        if x in ("&", "&&"):
            self.i += 1
            op = "&"
            if self.peek() == "mut":
                self.i += 1
                op = "&mut"
            elif self.peek() == "raw" and self.peek(1) in ("const", "mut"):
                raise ShapeError("raw borrow")
            inner = ("unary", op, self._unary_operand(ns))
            return ("unary", "&", inner) if x == "&&" else inner
        return self._postfix(self._primary(ns), ns)

    def _unary_operand(self, ns):
        # a unary operator binds tighter than `as` and binary operators, looser than postfix
        return self._unary(ns)

    def _postfix(self, e, ns):
        while True:
            x = self.peek()
            if x == "?":
                self.i += 1
                e = ("try", e)
            elif x == "(":
                e = ("call", e, self._args())
            elif x == "[":
                j = match_close(self.t, self.i)
                sub = Parser(self.t[self.i + 1:j])
                idx = sub.expr()
                if not sub.at_end():
                    raise ShapeError("index expression not understood")
                self.i = j + 1
                e = ("index", e, idx)
            elif x == ".":
                nxt = self.peek(1)
                if nxt is None:
                    raise ShapeError("dangling .")
                if nxt == "await":
                    raise ShapeError(".await")
                if nxt[0].isdigit():
                    self.i += 2
                    for part in nxt.split("."):
                        e = ("field", e, part)
                    continue
                if not (is_ident(nxt) or nxt in ("self",)):
                    raise ShapeError("field name expected, got %r" % nxt)
                self.i += 2
                g = None
                if self.peek() == "::" and self.peek(1) == "<":
                    self.i += 1
                    g = self.generic_args()
                if self.peek() == "(":
                    e = ("mcall", e, nxt, g, self._args())
                else:
                    if g is not None:
                        raise ShapeError("generic arguments on a field")
                    e = ("field", e, nxt)
            else:
                return e

    def _args(self):
        j = match_close(self.t, self.i)
        sub = Parser(self.t[self.i + 1:j])
        args = []
        while not sub.at_end():
            args.append(sub.expr())
            if not sub.at_end():
                sub.eat(",")
        self.i = j + 1
        return tuple(args)

    def _label(self):
        if is_lifetime(self.peek()) and self.peek(1) == ":":
            l = self.eat()
            self.eat(":")
            return l
        return None

    def _primary(self, ns):
        x = self.peek()
        if x is None:
            raise ShapeError("expression expected")
        if is_literal(x):
            self.i += 1
            return ("lit", x)
        if x == "(":
            j = match_close(self.t, self.i)
            sub = Parser(self.t[self.i + 1:j])
            elems, trailing = [], False
            while not sub.at_end():
                elems.append(sub.expr())
                trailing = False
                if not sub.at_end():
                    sub.eat(",")
                    trailing = True
            self.i = j + 1
            if len(elems) == 1 and not trailing:
                return elems[0]
            return ("tuple", tuple(elems))
        if x == "[":
            j = match_close(self.t, self.i)
            sub = Parser(self.t[self.i + 1:j])
            elems = []
            node = None
            while not sub.at_end():
                elems.append(sub.expr())
                if sub.peek() == ";" and len(elems) == 1:
                    sub.i += 1
                    n = sub.expr()
                    if not sub.at_end():
                        raise ShapeError("array repeat expression not understood")
                    node = ("repeat", elems[0], n)
                    break
                if not sub.at_end():
                    sub.eat(",")
            self.i = j + 1
            return node if node is not None else ("array", tuple(elems))
        label = None
        if is_lifetime(x) and self.peek(1) == ":":
            label = self._label()
            x = self.peek()
        if x == "{":
            return self.block_expr(label=label)
        if x == "unsafe" and self.peek(1) == "{":
            self.i += 1
            return self.block_expr(kind="unsafe")
        if x == "const" and self.peek(1) == "{":
            self.i += 1
            return self.block_expr(kind="const")
        if x == "if":
            return self._if()
        if x == "match":
            self.i += 1
            scrut = self.expr(nostruct=True)
            self.eat_open("{")
            j = match_close(self.t, self.i - 1)
            sub = Parser(self.t[self.i:j])
            arms = sub._arms()
            self.i = j + 1
            return ("match", scrut, tuple(arms))
        if x == "while":
            self.i += 1
            cond = self._cond()
            body = self.block_expr()
            return ("while", cond, body, label)
        if x == "loop":
            self.i += 1
            return ("loop", self.block_expr(), label)
        if x == "for":
            self.i += 1
            pat = self.pattern()
            self.eat("in")
            it = self.expr(nostruct=True)
            body = self.block_expr()
            return ("for", pat, it, body, label)
        if label is not None:
            raise ShapeError("label before %r" % x)
        if x == "let":
            raise ShapeError("`let` in expression position")
        if is_ident(x) or x in PATH_START_KW or x in ("<", "::"):
            if is_ident(x) and self.peek(1) == "!" and self.peek(2) in OPEN:
                return self._macro((x,))
            path = self.path_expr()
            if self.peek() == "!" and self.peek(1) in OPEN and path[0] == "path":
                toks = []
                for k, (n, g) in enumerate(path[1]):
                    if k:
                        toks.append("::")
                    toks.append(n)
                self.i -= 0
                return self._macro(tuple(toks), consumed=True)
            if self.peek() == "{" and not ns and self._looks_like_struct_literal():
                return self._struct_literal(path)
            return path
        raise ShapeError("expression not understood at %r (`%s`)" % (x, " ".join(self.t[self.i:self.i + 8])))

    def eat_open(self, x):
        self.eat(x)

    def _looks_like_struct_literal(self):
        # `Path {` followed by `}` / `ident :` / `ident ,` / `ident }` / `..`
        a, b = self.peek(1), self.peek(2)
        if a == "}" or a == "..":
            return True
        if a == "#":
            return True
        if (is_ident(a) or (a is not None and a[0].isdigit())) and b in (":", ",", "}"):
            return True
        return False

    def _struct_literal(self, path):
        j = match_close(self.t, self.i)
        sub = Parser(self.t[self.i + 1:j])
        fields, base = [], None
        while not sub.at_end():
            if sub.peek() == "..":
                sub.i += 1
                base = sub.expr()
                break
            if sub.peek() == "#":
                raise ShapeError("attribute on a struct literal field")
            name = sub.eat()
            if sub.peek() == ":":
                sub.i += 1
                fields.append((name, sub.expr()))
            else:
                fields.append((name, ("path", ((name, None),))))
            if not sub.at_end():
                sub.eat(",")
        self.i = j + 1
        return ("struct", path, tuple(fields), base)

    def _macro(self, path_toks, consumed=False):
        if not consumed:
            self.i += 1          # the name
        self.eat("!")
        j = match_close(self.t, self.i)
        node = ("macro", path_toks, self.t[self.i], tuple(self.t[self.i + 1:j]))
        self.i = j + 1
        return node

    def _cond(self):
        """condition of if / while: an expression without struct literals, possibly `let PAT = EXPR` (chains with &&)"""
        if self.peek() == "let":
            self.i += 1
            pat = self.pattern()
            self.eat("=")
            # the scrutinee of `if let` extends to the `{` (lazy boolean operators excluded)
            e = self._binary(5, True)
            node = ("letcond", pat, e)
            while self.peek() == "&&":
                self.i += 1
                if self.peek() == "let":
                    r = self._cond()
                else:
                    r = self._binary(5, True)
                node = ("binary", "&&", node, r)
            return node
        return self.expr(nostruct=True)

    def _if(self):
        self.eat("if")
        cond = self._cond()
        then = self.block_expr()
        els = None
        if self.peek() == "else":
            self.i += 1
            if self.peek() == "if":
                els = self._if()
            else:
                els = self.block_expr()
        return ("if", cond, then, els)

    def _arms(self):
        arms = []
        while not self.at_end():
            attrs = []
            while self.peek() == "#":
                e = match_close(self.t, self.i + 1)
                attrs.append(tuple(self.t[self.i:e + 1]))
                self.i = e + 1
            pat = self.pattern()
            for a in reversed(attrs):
                pat = ("p_attr", a, pat)          # `#[cfg(..)] PAT => ..`: kept, never reordered or merged
            guard = None
            if self.peek() == "if":
                self.i += 1
                guard = self._cond()
            self.eat("=>")
            if self.peek() in ("{", "if", "match", "loop", "while", "for") or (self.peek() == "unsafe" and self.peek(1) == "{") \
                    or (is_lifetime(self.peek()) and self.peek(1) == ":"):
                body = self._primary(False)
                if self.peek() in (".", "?"):
                    body = self._postfix(body, False)
                    body = self._continue_binary(body)
                if self.peek() == ",":
                    self.i += 1
            else:
                body = self.expr()
                if not self.at_end():
                    self.eat(",")
            arms.append((pat, guard, body))
        return arms

    def _continue_binary(self, l):
        """continues a binary / cast expression whose left operand has been parsed already"""
        while True:
            if self.peek() == "as":
                self.i += 1
                l = ("cast", l, self.type_())
                continue
            op, n = self._peek_binop()
            if op is None:
                return l
            self.i += n
            r = self._binary(BINOPS[op] + 1, False)
            l = ("binary", op, l, r)

    # ------------------------------------------------------------ blocks and statements
    def block_expr(self, label=None, kind=""):
        if self.peek() != "{":
            raise ShapeError("block expected, got %r" % self.peek())
        j = match_close(self.t, self.i)
        sub = Parser(self.t[self.i + 1:j])
        stmts = sub.statements()
        self.i = j + 1
        return ("block", tuple(stmts), label, kind)

    def statements(self):
        out = []
        while not self.at_end():
            if self.peek() == ";":
                self.i += 1
                continue
            out.append(self.statement())
        return out

    ITEM_START = {"fn", "use", "struct", "enum", "impl", "trait", "mod", "static", "type", "extern", "pub", "macro_rules"}

    def statement(self):
        x = self.peek()
        if x == "#":
            s = self.i
            self.i += 1
            if self.peek() == "!":
                self.i += 1
            self.i = match_close(self.t, self.i) + 1
            attr = tuple(self.t[s:self.i])
            return ("attr", attr, self.statement())
        if x == "let":
            self.i += 1
            pat = self.pattern()
            ty = init = els = None
            if self.peek() == ":":
                self.i += 1
                ty = self.type_()
            if self.peek() == "=":
                self.i += 1
                init = self.expr()
                if self.peek() == "else":
                    self.i += 1
                    els = self.block_expr()
            self.eat(";")
            return ("let", pat, ty, init, els)
        if x in self.ITEM_START or (x == "const" and self.peek(1) != "{") or (x == "unsafe" and self.peek(1) in ("fn", "impl")):
            s = self.i
            while not self.at_end() and self.peek() not in (";", "{"):
                if self.peek() in OPEN:
                    self.i = match_close(self.t, self.i) + 1
                else:
                    self.i += 1
            if self.at_end():
                raise ShapeError("unterminated item")
            if self.peek() == "{":
                self.i = match_close(self.t, self.i) + 1
            else:
                self.i += 1
            return ("item", tuple(self.t[s:self.i]))
        # expression statement
        blocklike = x in ("if", "match", "while", "loop", "for", "{") or (x == "unsafe" and self.peek(1) == "{") \
            or (is_lifetime(x) and self.peek(1) == ":")
        if blocklike:
            e = self._primary(False)
            if self.peek() in (".", "?"):
                e = self._postfix(e, False)
                e = self._continue_binary(e)
                if self.peek() in ASSIGN_OPS:
                    op = self.eat()
                    e = ("assign", op, e, self.expr())
            elif not self.at_end() and self.peek() != ";":
                return ("semi", e) if not self._block_has_value_position() else ("expr", e)
        else:
            e = self.expr()
        if self.peek() == ";":
            self.i += 1
            return ("semi", e)
        if self.at_end():
            return ("expr", e)
        if e[0] == "macro" and e[2] == "{":
            return ("semi", e)
        raise ShapeError("`;` expected after expression, got %r (`%s`)" % (self.peek(), " ".join(self.t[max(0, self.i - 5):self.i + 5])))

    def _block_has_value_position(self):
        return False

def parse_block_tokens(toks):
    """tokens between the braces of a block -> ("block", stmts, None, "")"""
    p = Parser(toks)
    return ("block", tuple(p.statements()), None, "")

def parse_expr_tokens(toks):
    p = Parser(toks)
    e = p.expr()
    if not p.at_end():
        raise ShapeError("trailing tokens after expression: %s" % " ".join(p.t[p.i:p.i + 6]))
    return e

def parse_pattern_tokens(toks):
    p = Parser(toks)
    pat = p.pattern()
    if not p.at_end():
        raise ShapeError("trailing tokens after pattern: %s" % " ".join(p.t[p.i:p.i + 6]))
    return pat

# ============================================================================ printer
def prec(e):
    k = e[0]
    if k == "binary":
        return BINOPS[e[1]]
    if k == "unary":
        return P_UNARY
    if k in ("cast",):
        return P_CAST
    if k == "range":
        return P_RANGE
    if k in ("assign",):
        return P_ASSIGN
    if k in ("closure", "return", "break"):
        return P_LOWEST
    return P_POSTFIX + 1

def _wrap(e, minp, out, ctx_nostruct=False):
    if prec(e) < minp or (ctx_nostruct and e[0] == "struct"):
        out.append("(")
        pr_expr(e, out)
        out.append(")")
    else:
        pr_expr(e, out)

def pr_gargs(g, out, turbofish=True):
    if g is None:
        return
    if turbofish:
        out.append("::")
    out.append("<")
    for k, a in enumerate(g):
        if k:
            out.append(",")
        out.extend(a[1])
    out.append(">")

def pr_path(p, out):
    if p[0] == "qpath":
        out.append("<"); out.extend(p[1]); out.append(">"); out.append("::")
        segs = p[2]
    else:
        segs = p[1]
    for k, (n, g) in enumerate(segs):
        if k:
            out.append("::")
        if n:
            out.append(n)
        pr_gargs(g, out)

def pr_pat(p, out):
    k = p[0]
    if k == "p_wild":
        out.append("_")
    elif k == "p_rest":
        out.append("..")
    elif k == "p_ident":
        if p[1]: out.append("ref")
        if p[2]: out.append("mut")
        out.append(p[3])
        if p[4] is not None:
            out.append("@")
            if p[4][0] == "p_or":
                out.append("("); pr_pat(p[4], out); out.append(")")
            else:
                pr_pat(p[4], out)
    elif k == "p_lit":
        _pr_patlit(p[1], out)
    elif k == "p_range":
        if p[1] is not None: _pr_patlit(p[1], out)
        out.append(p[3])
        if p[2] is not None: _pr_patlit(p[2], out)
    elif k == "p_ref":
        out.append("&")
        if p[1]: out.append("mut")
        pr_pat(p[2], out)
    elif k == "p_tuple":
        out.append("(")
        for i, q in enumerate(p[1]):
            if i: out.append(",")
            pr_pat(q, out)
        if len(p[1]) == 1:
            out.append(",")
        out.append(")")
    elif k == "p_slice":
        out.append("[")
        for i, q in enumerate(p[1]):
            if i: out.append(",")
            pr_pat(q, out)
        out.append("]")
    elif k == "p_path":
        pr_path(p[1], out)
    elif k == "p_ts":
        pr_path(p[1], out)
        out.append("(")
        for i, q in enumerate(p[2]):
            if i: out.append(",")
            pr_pat(q, out)
        out.append(")")
    elif k == "p_struct":
        pr_path(p[1], out)
        out.append("{")
        first = True
        for name, q in p[2]:
            if not first: out.append(",")
            first = False
            if q[0] == "p_ident" and q[3] == name and q[4] is None:
                pr_pat(q, out)
            else:
                out.append(name); out.append(":"); pr_pat(q, out)
        if p[3]:
            if not first: out.append(",")
            out.append("..")
        out.append("}")
    elif k == "p_or":
        for i, q in enumerate(p[1]):
            if i: out.append("|")
            pr_pat(q, out)
    elif k == "p_macro":
        out.extend(p[1]); out.append("!"); out.append(p[2]); out.extend(p[3]); out.append(OPEN[p[2]])
    elif k == "p_attr":
        out.extend(p[1]); pr_pat(p[2], out)
    else:
        raise ShapeError("cannot print pattern %r" % (k,))

def _pr_patlit(l, out):
    if l[0] == "path":
        pr_path(l[1], out)
    else:
        out.extend(l)

def pr_block(b, out):
    if b[2]:
        out.append(b[2]); out.append(":")
    if b[3]:
        out.append(b[3])
    out.append("{")
    pr_stmts(b[1], out)
    out.append("}")

def pr_stmts(stmts, out):
    for k, s in enumerate(stmts):
        pr_stmt(s, out, last=(k + 1 == len(stmts)))

BLOCKLIKE = ("if", "match", "while", "loop", "for", "block")

def pr_stmt(s, out, last=False):
    k = s[0]
    if k == "let":
        out.append("let"); pr_pat(s[1], out)
        if s[2] is not None:
            out.append(":"); out.extend(s[2][1])
        if s[3] is not None:
            out.append("="); pr_expr(s[3], out)
        if s[4] is not None:
            out.append("else"); pr_block(s[4], out)
        out.append(";")
    elif k == "expr":
        pr_expr(s[1], out)
    elif k == "semi":
        pr_expr(s[1], out)
        if s[1][0] not in BLOCKLIKE or last:
            out.append(";")
    elif k == "item":
        out.extend(s[1])
    elif k == "attr":
        out.extend(s[1]); pr_stmt(s[2], out, last)
    else:
        raise ShapeError("cannot print statement %r" % (k,))

def pr_cond(c, out):
    if c[0] == "letcond":
        out.append("let"); pr_pat(c[1], out); out.append("="); _wrap(c[2], 5, out, True)
    elif c[0] == "binary" and c[1] == "&&" and _has_letcond(c):
        pr_cond(c[2], out); out.append("&&"); pr_cond(c[3], out) if c[3][0] == "letcond" else _wrap(c[3], 5, out, True)
    else:
        _wrap(c, 0, out, True)

def _has_letcond(c):
    return c[0] == "letcond" or (c[0] == "binary" and c[1] == "&&" and (_has_letcond(c[2]) or _has_letcond(c[3])))

def pr_expr(e, out):
    k = e[0]
    if k == "lit":
        out.append(e[1])
    elif k in ("path", "qpath"):
        pr_path(e, out)
    elif k == "call":
        _wrap(e[1], P_POSTFIX, out)
        out.append("("); _pr_list(e[2], out); out.append(")")
    elif k == "mcall":
        _wrap(e[1], P_POSTFIX, out)
        out.append("."); out.append(e[2]); pr_gargs(e[3], out)
        out.append("("); _pr_list(e[4], out); out.append(")")
    elif k == "field":
        _wrap(e[1], P_POSTFIX, out)
        out.append("."); out.append(e[2])
    elif k == "index":
        _wrap(e[1], P_POSTFIX, out)
        out.append("["); pr_expr(e[2], out); out.append("]")
    elif k == "try":
        _wrap(e[1], P_POSTFIX, out)
        out.append("?")
    elif k == "unary":
        if e[1] == "&mut":
            out.append("&"); out.append("mut")
        else:
            out.append(e[1])
        _wrap(e[2], P_UNARY, out)
    elif k == "binary":
        p = BINOPS[e[1]]
        lp = p + 1 if p == 5 else p           # comparisons do not chain
        _wrap(e[2], lp, out)
        if e[1] in ("<<", ">>"):
            out.append(e[1][0]); out.append(e[1][0])
        else:
            out.append(e[1])
        _wrap(e[3], p + 1, out)
    elif k == "assign":
        _wrap(e[2], P_RANGE + 1, out); out.append(e[1]); _wrap(e[3], P_ASSIGN, out)
    elif k == "cast":
        _wrap(e[1], P_CAST, out); out.append("as"); out.extend(e[2][1])
    elif k == "asc":
        out.append("__asc"); out.append("("); pr_expr(e[1], out); out.append(","); out.extend(e[2][1]); out.append(")")
    elif k == "range":
        if e[1] is not None: _wrap(e[1], P_RANGE + 1, out)
        out.append(e[3])
        if e[2] is not None: _wrap(e[2], P_RANGE + 1, out)
    elif k == "closure":
        if e[1]: out.append("move")
        if not e[2]:
            out.append("||")
        else:
            out.append("|")
            for i, (p, ty) in enumerate(e[2]):
                if i: out.append(",")
                pr_pat(p, out)
                if ty is not None:
                    out.append(":"); out.extend(ty[1])
            out.append("|")
        if e[3] is not None:
            out.append("->"); out.extend(e[3][1])
        pr_expr(e[4], out)
    elif k == "block":
        pr_block(e, out)
    elif k == "if":
        out.append("if"); pr_cond(e[1], out); pr_block(e[2], out)
        if e[3] is not None:
            out.append("else"); pr_expr(e[3], out)
    elif k == "letcond":
        pr_cond(e, out)
    elif k == "match":
        out.append("match"); _wrap(e[1], 0, out, True); out.append("{")
        for i, (p, g, b) in enumerate(e[2]):
            pr_pat(p, out)
            if g is not None:
                out.append("if"); pr_cond(g, out)
            out.append("=>"); pr_expr(b, out)
            last = i + 1 == len(e[2])
            if b[0] == "block":
                continue
            if not last:
                out.append(",")
        out.append("}")
    elif k == "while":
        if e[3]: out.append(e[3]); out.append(":")
        out.append("while"); pr_cond(e[1], out); pr_block(e[2], out)
    elif k == "loop":
        if e[2]: out.append(e[2]); out.append(":")
        out.append("loop"); pr_block(e[1], out)
    elif k == "for":
        if e[4]: out.append(e[4]); out.append(":")
        out.append("for"); pr_pat(e[1], out); out.append("in"); _wrap(e[2], 0, out, True); pr_block(e[3], out)
    elif k == "break":
        out.append("break")
        if e[1]: out.append(e[1])
        if e[2] is not None: pr_expr(e[2], out)
    elif k == "continue":
        out.append("continue")
        if e[1]: out.append(e[1])
    elif k == "return":
        out.append("return")
        if e[1] is not None: pr_expr(e[1], out)
    elif k == "macro":
        out.extend(e[1]); out.append("!"); out.append(e[2]); out.extend(e[3]); out.append(OPEN[e[2]])
    elif k == "struct":
        pr_path(e[1], out); out.append("{")
        first = True
        for name, v in e[2]:
            if not first: out.append(",")
            first = False
            out.append(name); out.append(":"); pr_expr(v, out)
        if e[3] is not None:
            if not first: out.append(",")
            out.append(".."); pr_expr(e[3], out)
        out.append("}")
    elif k == "tuple":
        out.append("("); _pr_list(e[1], out)
        if len(e[1]) == 1: out.append(",")
        out.append(")")
    elif k == "array":
        out.append("["); _pr_list(e[1], out); out.append("]")
    elif k == "repeat":
        out.append("["); pr_expr(e[1], out); out.append(";"); pr_expr(e[2], out); out.append("]")
    else:
        raise ShapeError("cannot print expression %r" % (k,))

def _pr_list(es, out):
    for i, a in enumerate(es):
        if i: out.append(",")
        pr_expr(a, out)

def text(e):
    out = []
    pr_expr(e, out)
    return " ".join(out)

def pat_text(p):
    out = []
    pr_pat(p, out)
    return " ".join(out)

# ============================================================================ items of a file (token level)
class Fn:
    """one `fn` of a file: name, generics (token list), params [(pattern tokens, type tokens)] (a self receiver is
    (["self"], [..])), ret (type tokens or None), body (token list between the braces, None for a declaration),
    owner: None (free fn) or (trait name or None, self type name) of the impl / ("trait", name) for a trait's
    default method; assoc: the `type X = T;` items of the owning impl {X: token list}"""
    def __init__(self, name, generics, params, ret, body, owner, assoc, nested=False):
        self.name, self.generics, self.params, self.ret, self.body = name, generics, params, ret, body
        self.owner, self.assoc, self.nested = owner, assoc, nested
    def has_self(self):
        return bool(self.params) and "self" in self.params[0][0] and len(self.params[0][0]) <= 3 and \
            (self.params[0][0][-1] == "self")
    def type_params(self):
        """names of the generic type parameters (lifetimes and const parameters excluded)"""
        out = []
        if not self.generics:
            return out
        depth, expect = 0, True
        for k, x in enumerate(self.generics):
            if x == "<":
                depth += 1
            elif x == ">":
                depth -= 1
            elif depth == 0:
                if x == ",":
                    expect = True
                elif expect:
                    if is_ident(x):
                        out.append(x)
                    expect = False
        return out

class FileItems:
    def __init__(self):
        self.fns = []          # [Fn]
        self.consts = {}       # name -> [(type tokens, expr tokens, owner)]
        self.uses = []         # token lists of `use` declarations

def _split_params(toks):
    parts, cur, depth, k = [], [], 0, 0
    while k < len(toks):
        x = toks[k]
        if x in OPEN:
            j = match_close(toks, k)
            cur.extend(toks[k:j + 1]); k = j + 1
            continue
        if x == "<":
            depth += 1
        elif x == ">" and depth > 0:
            depth -= 1
        elif x == "->" :
            pass
        if x == "," and depth == 0:
            parts.append(cur); cur = []
        else:
            cur.append(x)
        k += 1
    if cur:
        parts.append(cur)
    out = []
    for p in parts:
        while p and p[0] == "#":
            p = p[match_close(p, 1) + 1:]
        if not p:
            continue
        q = [x for x in p if not is_lifetime(x)]
        if q in (["self"], ["mut", "self"], ["&", "self"], ["&", "mut", "self"]):
            out.append((q, []))
            continue
        # pattern : type   (the first top-level ':')
        d, idx = 0, None
        for k, x in enumerate(p):
            if x in OPEN: d += 1
            elif x in CLOSE: d -= 1
            elif x == ":" and d == 0:
                idx = k; break
        if idx is None:
            raise ShapeError("parameter not understood: " + " ".join(p))
        out.append((p[:idx], p[idx + 1:]))
    return out

def scan_items(toks, items=None, owner=None, assoc=None, nested=False):
    """collects the fns, consts and uses of a token list (a file, or the body of an impl / mod / trait);
    `#[cfg(test)]` items are skipped"""
    if items is None:
        items = FileItems()
    i, n = 0, len(toks)
    skip_next = False
    while i < n:
        x = toks[i]
        if x == "#" and i + 1 < n and toks[i + 1] in ("[", "!"):
            j = i + 1 if toks[i + 1] == "[" else i + 2
            e = match_close(toks, j)
            attr = toks[j + 1:e]
            if attr[:1] == ["cfg"] and "test" in attr and "not" not in attr:
                skip_next = True
            i = e + 1
            continue
        if x in ("pub",):
            i += 1
            if i < n and toks[i] == "(":
                i = match_close(toks, i) + 1
            continue
        if x in ("unsafe", "default", "async", "extern") and i + 1 < n and toks[i + 1] in ("fn", "impl", "unsafe", "extern", "trait") :
            i += 1
            continue
        if x == "extern" and i + 1 < n and toks[i + 1].startswith('"'):
            i += 2
            continue
        if x == "fn" and i + 1 < n and is_ident(toks[i + 1]):
            name = toks[i + 1]
            k = i + 2
            generics = []
            if toks[k] == "<":
                depth, s = 0, k
                while True:
                    if toks[k] == "<": depth += 1
                    elif toks[k] == ">":
                        depth -= 1
                        if depth == 0: break
                    k += 1
                generics = toks[s + 1:k]
                k += 1
            if toks[k] != "(":
                raise ShapeError("fn %s: no parameter list" % name)
            pe = match_close(toks, k)
            params = _split_params(toks[k + 1:pe])
            k = pe + 1
            ret = None
            s = k
            while toks[k] not in ("{", ";") or _in_brackets(toks, s, k):
                k += 1
            hdr = toks[s:k]
            if hdr[:1] == ["->"]:
                w = _top_index(hdr, "where")
                ret = hdr[1:w] if w is not None else hdr[1:]
            body = None
            if toks[k] == "{":
                be = match_close(toks, k)
                body = toks[k + 1:be]
                i = be + 1
            else:
                i = k + 1
            if not skip_next:
                items.fns.append(Fn(name, generics, params, ret, body, owner, assoc or {}, nested))
                if body is not None:
                    _scan_nested(body, items, owner, assoc)
            skip_next = False
            continue
        if x == "const" and i + 2 < n and (is_ident(toks[i + 1]) or toks[i + 1] == "_") and toks[i + 2] == ":":
            k = i + 3
            while toks[k] != "=" and toks[k] != ";":
                if toks[k] in OPEN:
                    k = match_close(toks, k) + 1
                else:
                    k += 1
            ty = toks[i + 3:k]
            if toks[k] == "=":
                s = k + 1
                while toks[k] != ";":
                    if toks[k] in OPEN:
                        k = match_close(toks, k) + 1
                    else:
                        k += 1
                if not skip_next:
                    items.consts.setdefault(toks[i + 1], []).append((ty, toks[s:k], owner))
            skip_next = False
            i = k + 1
            continue
        if x == "use":
            k = i
            while toks[k] != ";":
                k += 1
            if not skip_next:
                items.uses.append(toks[i + 1:k])
            skip_next = False
            i = k + 1
            continue
        if x in ("impl", "mod", "trait"):
            k = i + 1
            while k < n and toks[k] not in ("{", ";"):
                if toks[k] in ("(", "["):
                    k = match_close(toks, k) + 1
                else:
                    k += 1
            if k >= n or toks[k] == ";":
                i = k + 1
                skip_next = False
                continue
            e = match_close(toks, k)
            if not skip_next:
                hdr = toks[i + 1:k]
                inner = toks[k + 1:e]
                if x == "impl":
                    own = _impl_owner(hdr)
                    scan_items(inner, items, own, _assoc_types(inner))
                elif x == "trait":
                    scan_items(inner, items, ("trait", hdr[0] if hdr else "?"), {})
                else:
                    scan_items(inner, items, owner, assoc)
            skip_next = False
            i = e + 1
            continue
        if x in ("struct", "enum", "union", "type", "static", "macro_rules"):
            k = i + 1
            while k < n and toks[k] not in ("{", ";"):
                if toks[k] in ("(", "["):
                    k = match_close(toks, k) + 1
                else:
                    k += 1
            if k < n and toks[k] == "{":
                k = match_close(toks, k)
                # a tuple struct / macro may be followed by `;`
            elif k < n and toks[k] == ";":
                pass
            i = k + 1
            skip_next = False
            continue
        if x in OPEN:
            i = match_close(toks, i) + 1
            continue
        i += 1
    return items

def _in_brackets(toks, s, k):
    d = 0
    for x in toks[s:k]:
        if x in OPEN: d += 1
        elif x in CLOSE: d -= 1
    return d != 0

def _top_index(toks, what):
    d = 0
    for k, x in enumerate(toks):
        if x in OPEN: d += 1
        elif x in CLOSE: d -= 1
        elif x == what and d == 0:
            return k
    return None

def _impl_owner(hdr):
    """header tokens of an impl (between `impl` and `{`) -> (trait name or None, type name)"""
    h = list(hdr)
    if h and h[0] == "<":
        depth = 0
        for k, x in enumerate(h):
            if x == "<": depth += 1
            elif x == ">":
                depth -= 1
                if depth == 0:
                    h = h[k + 1:]
                    break
    w = _top_index(h, "where")
    if w is not None:
        h = h[:w]
    def last_name(ts):
        # the last path segment before generics
        name, depth = None, 0
        for x in ts:
            if x == "<": depth += 1
            elif x == ">": depth -= 1
            elif depth == 0 and is_ident(x) or x == "Self":
                if depth == 0:
                    name = x
        return name
    if "for" in h:
        f = h.index("for")
        return (last_name(h[:f]), last_name(h[f + 1:]))
    return (None, last_name(h))

def _assoc_types(inner):
    out, i = {}, 0
    while i < len(inner):
        x = inner[i]
        if x in OPEN:
            i = match_close(inner, i) + 1
            continue
        if x == "type" and i + 2 < len(inner) and is_ident(inner[i + 1]) and inner[i + 2] == "=":
            k = i + 3
            while inner[k] != ";":
                k += 1
            out[inner[i + 1]] = inner[i + 3:k]
            i = k + 1
            continue
        i += 1
    return out

def _scan_nested(body, items, owner, assoc):
    """fns and consts declared inside a function body (any depth)"""
    i = 0
    while i < len(body):
        x = body[i]
        if x == "fn" and i + 1 < len(body) and is_ident(body[i + 1]) or \
                (x == "const" and i + 2 < len(body) and is_ident(body[i + 1]) and body[i + 2] == ":"):
            # find the end of the item, scan it alone
            k = i
            while body[k] not in ("{", ";") or (x == "fn" and body[k] == ";" and False):
                if body[k] in ("(", "["):
                    k = match_close(body, k) + 1
                else:
                    k += 1
            if body[k] == "{" and x == "const":
                # `const X: T = { .. };`
                k = match_close(body, k)
                while body[k] != ";":
                    k += 1
            elif body[k] == "{":
                k = match_close(body, k)
            scan_items(body[i:k + 1], items, None if x == "fn" else owner, assoc, nested=True)
            i = k + 1
            continue
        i += 1
