"""A tiny parser for the Rust integer expressions the translators need
(shifts, xor/and/or, casts, indexing, field access, hex literals) and a
printer to Gallina over N. Deliberately small: anything outside this
fragment raises TranslateError (= broken tie, handled by the check)."""
import re

class TranslateError(Exception):
    pass

TOK = re.compile(r"\s*(0x[0-9A-Fa-f_]+|\d[\d_]*|[A-Za-z_][A-Za-z0-9_]*|>>|<<|[()\[\]^&|.+*-])")

def tokenize(s):
    out, i = [], 0
    s = s.strip()
    while i < len(s):
        m = TOK.match(s, i)
        if not m:
            raise TranslateError("cannot tokenize %r at %d" % (s, i))
        out.append(m.group(1))
        i = m.end()
    return out

class P:
    def __init__(self, toks):
        self.t, self.i = toks, 0
    def peek(self):
        return self.t[self.i] if self.i < len(self.t) else None
    def eat(self, x=None):
        v = self.peek()
        if v is None or (x is not None and v != x):
            raise TranslateError("expected %r got %r" % (x, v))
        self.i += 1
        return v
    def expr(self):
        return self.binl(["|"], lambda: self.binl(["^"], lambda: self.binl(["&"], lambda: self.binl([">>", "<<"], self.cast))))
    def binl(self, ops, sub):
        l = sub()
        while self.peek() in ops:
            op = self.eat()
            r = sub()
            l = ("bin", op, l, r)
        return l
    def cast(self):
        e = self.postfix()
        while self.peek() == "as":
            self.eat()
            ty = self.eat()
            e = ("cast", ty, e)
        return e
    def postfix(self):
        e = self.primary()
        while True:
            if self.peek() == "[":
                self.eat()
                idx = self.expr()
                self.eat("]")
                e = ("index", e, idx)
            elif self.peek() == ".":
                self.eat()
                f = self.eat()
                e = ("field", e, f)
            else:
                return e
    def primary(self):
        v = self.eat()
        if v == "(":
            e = self.expr()
            self.eat(")")
            return e
        if v.startswith("0x"):
            return ("lit", int(v.replace("_", ""), 16))
        if v[0].isdigit():
            return ("lit", int(v.replace("_", "")))
        if re.match(r"[A-Za-z_]", v):
            return ("var", v)
        raise TranslateError("unexpected token %r" % v)

def parse(s):
    p = P(tokenize(s))
    e = p.expr()
    if p.peek() is not None:
        raise TranslateError("trailing tokens in %r" % s)
    return e

def to_gallina(e, env, width=64):
    """env maps rendered Rust paths ('self.result', 'b', 'FP_TABLE') to Gallina names."""
    k = e[0]
    if k == "lit":
        return str(e[1])
    if k in ("var", "field"):
        path = render_path(e)
        if path in env:
            return env[path]
        raise TranslateError("unknown variable %s" % path)
    if k == "cast":
        ty = e[1]
        inner = to_gallina(e[2], env, width)
        if ty in ("u64", "usize"):
            return inner
        if ty == "u8":
            return "(N.land %s 255)" % inner
        if ty == "u32":
            return "(N.land %s 4294967295)" % inner
        raise TranslateError("unsupported cast to %s" % ty)
    if k == "index":
        arr = to_gallina(e[1], env, width)
        idx = to_gallina(e[2], env, width)
        return "(nth (N.to_nat %s) %s 0)" % (idx, arr)
    if k == "bin":
        op, l, r = e[1], to_gallina(e[2], env, width), to_gallina(e[3], env, width)
        if op == ">>":
            return "(N.shiftr %s %s)" % (l, r)
        if op == "<<":
            return "(N.land (N.shiftl %s %s) (N.ones %d))" % (l, r, width)
        if op == "^":
            return "(N.lxor %s %s)" % (l, r)
        if op == "&":
            return "(N.land %s %s)" % (l, r)
        if op == "|":
            return "(N.lor %s %s)" % (l, r)
    raise TranslateError("unsupported expression %r" % (e,))

def render_path(e):
    if e[0] == "var":
        return e[1]
    if e[0] == "field":
        return render_path(e[1]) + "." + e[2]
    raise TranslateError("not a path: %r" % (e,))
