#!/usr/bin/env python3
"""Regenerates coq/gen/GenDeDispatch.v from serde_avro_fast/src/de/deserializer/mod.rs:
for every method of `impl Deserializer for DatumDeserializer` that is a `match` over the schema node,
the table (node kind -> symbolic action) of its arms; for every other method, what it forwards to.

Usage: gen_dispatch.py <repo> <out.v>

The action symbols (model/DispatchKinds.v) are recovered from the canonical text of the arm body: the function
body is parsed (rustast.py) and normalised (rustnorm.py: constants resolved, single-use lets substituted, if / match
/ return forms unified, locals renamed in binding order, message texts blanked; the rule templates below go through
the same normalisation), so the tables are robust against whitespace, comments, arm order, or-patterns, renamed
locals / parameters / pattern bindings, `self.state` vs a let-bound alias, named constants, values computed in a
`let` first, flipped if/else, early returns, message texts -- and, when an arm is not recognised as written, against
a private helper of the same file called instead of the code; NOT robust against the integer type read, the visitor
method called, the flag given to BlockReader::new, a constant's value, a guard, an added or removed arm, an added
statement. An arm that is not recognised becomes `AUnknown "<canonical text>"` (the translator never fails on it):
the tie theorem (proofs/DeDispatchTie.v) then fails and shows the arm."""
import os, re, sys
sys.path.insert(0, os.path.dirname(os.path.abspath(__file__)))
import rustmatch as R
import rustast as A
import rustnorm as N
from rustmatch import ShapeError

KINDS = ["Null", "Boolean", "Int", "Long", "Float", "Double", "Bytes", "String", "Array", "Map",
         "Union", "Record", "Enum", "Fixed", "Decimal", "BigDecimal", "Uuid", "Date", "TimeMillis",
         "TimeMicros", "TimestampMillis", "TimestampMicros", "Duration"]

# methods expected to be a match over the node kind: (method, name of the generated table)
TABLES = [("deserialize_any", "gen_de_any"), ("deserialize_ignored_any", "gen_de_ignored"),
          ("deserialize_u64", "gen_de_u64"), ("deserialize_i64", "gen_de_i64"),
          ("deserialize_u128", "gen_de_u128"), ("deserialize_i128", "gen_de_i128"),
          ("deserialize_f64", "gen_de_f64"), ("deserialize_str", "gen_de_str"),
          ("deserialize_bytes", "gen_de_bytes"), ("deserialize_option", "gen_de_option"),
          ("deserialize_seq", "gen_de_seq"), ("deserialize_tuple", "gen_de_tuple"),
          ("deserialize_enum", "gen_de_enum"), ("deserialize_identifier", "gen_de_identifier")]

PH = {
    "__W__": r"(?P<W>[iu](?:8|16|32|64|128|size))",
    "__VM__": r"visit_(?P<VM>[a-z0-9_]+)",
    "__LV__": r"(?P<LV>BytesVisitor|StringVisitor)",
    "__B__": r"(?P<B>true|false)",
    "__N__": r"(?P<N>\d+)",
    "__H__": r"(?P<H>[A-Za-z0-9]+)",
    "__ANY__": r"(?P<ANY>.*?)",
}
# names that are bound outside an arm (the rule templates use them as free variables)
TEMPLATE_OUTER = ["__V", "__b", "__n"] + ["__p%d" % i for i in range(6)]

def template_text(template, ph=PH, self_type="DatumDeserializer"):
    """a rule template (Rust with placeholders) -> its canonical text, through the same normalisation as the arms"""
    toks = R.tokenize(template)
    toks = ["true" if t == "__B__" else t for t in toks]          # a placeholder in literal position
    if toks and toks[0] == "{" and R.match_close(toks, 0) == len(toks) - 1:
        toks = toks[1:-1]
    body = A.parse_block_tokens(toks)
    body = N.normalize_body(body, None, None, self_type)
    txt = N.canonical_text(body, None, statements=False)
    return txt

def rx(template, ph=PH, self_type="DatumDeserializer"):
    has_b = "__B__" in template
    txt = template_text(template, ph, self_type)
    parts = []
    for t in txt.split(" "):
        if has_b and t == "true":
            parts.append(ph["__B__"])
        else:
            parts.append(ph.get(t, re.escape(t)))
    return re.compile(" ".join(parts) + r"\Z")

BLOCK_READER = "BlockReader::new(self.state, __B__, self.allowed_depth.dec()?)"
INT_OF_VISIT = {"i32": "i32", "i64": "i64", "u32": "u32", "u64": "u64"}
WIDTH = {"i32": "Wi32", "i64": "Wi64", "u32": "Wu32", "u64": "Wu64"}
VMETH = {"unit": "Vunit", "i32": "Vi32", "i64": "Vi64", "u32": "Vu32", "u64": "Vu64"}
LDV = {"BytesVisitor": "LBytes", "StringVisitor": "LStr"}
HINT = {"Str": "DHStr", "U64": "DHU64", "I64": "DHI64", "U128": "DHU128", "I128": "DHI128", "F64": "DHF64"}

def varint(w, vm):
    if w in WIDTH and vm in VMETH:
        return "AVarint %s %s" % (WIDTH[w], VMETH[vm])
    return None
def varint_try(w, vm):
    if w in WIDTH and vm in VMETH and vm != "unit":
        return "AVarintTry %s %s" % (WIDTH[w], VMETH[vm])
    return None
def balanced(s):
    try:
        t = s.split(" ") if s else []
        d = 0
        for x in t:
            if x in R.OPEN: d += 1
            elif x in R.CLOSE:
                d -= 1
                if d < 0: return False
        return d == 0
    except Exception:
        return False

OPTION_UNION_PIN = template_text("""{
    let union_discriminant: usize = read_discriminant(self.state)?;
    match __b.variants.get(union_discriminant).map(|&schema_key| schema_key.as_ref()) {
        None => Err(DeError::new("_")),
        Some(SchemaNode::Null) => __V.visit_none(),
        Some(variant_schema) if __b.variants.len() == 2 && matches!(*__b.variants[1 - union_discriminant], SchemaNode::Null) => {
            __V.visit_some(DatumDeserializer { state: self.state, schema_node: variant_schema, allowed_depth: self.allowed_depth.dec()? })
        }
        Some(variant_schema) => {
            __V.visit_some(FavorSchemaTypeNameIfEnumHintDatumDeserializer {
                inner: DatumDeserializer { state: self.state, schema_node: variant_schema, allowed_depth: self.allowed_depth.dec()? },
            })
        }
    }
}""")

# (regex over the canonical text, function match -> Coq term or None)
RULES = [
    (rx("__V.visit_unit()"), lambda m: "AVisitUnit"),
    (rx("__V.visit_none()"), lambda m: "AVisitNone"),
    (rx("__V.visit_some(self)"), lambda m: "AVisitSomeSelf"),
    (rx("read_bool(self.state, __V)"), lambda m: "AReadBool"),
    # the integer type read is the parameter type of the visitor method (inference), or the annotation / turbofish
    (rx("__V.__VM__(self.state.read_varint()?)"), lambda m: varint(INT_OF_VISIT.get(m["VM"]), m["VM"])),
    (rx("__V.__VM__(self.state.read_varint::<__W__>()?)"), lambda m: varint(m["W"], m["VM"])),
    (rx("{ let _: __W__ = self.state.read_varint()?; __V.__VM__() }"), lambda m: varint(m["W"], m["VM"])),
    (rx("{ self.state.read_varint::<__W__>()?; __V.__VM__() }"), lambda m: varint(m["W"], m["VM"])),
    (rx("{ let __l0: __W__ = self.state.read_varint()?; __V.__VM__(__l0) }"),
        lambda m: varint(m["W"], m["VM"]) if INT_OF_VISIT.get(m["VM"]) == m["W"] else None),
    (rx("{ let __l0: __W__ = self.state.read_varint()?; __V.__VM__(__l0.try_into().map_err(__ANY__)?) }"),
        lambda m: varint_try(m["W"], m["VM"]) if balanced(m["ANY"]) else None),
    (rx("__V.__VM__({ let __l0: __W__ = self.state.read_varint()?; __l0.try_into().map_err(__ANY__)? })"),
        lambda m: varint_try(m["W"], m["VM"]) if balanced(m["ANY"]) else None),
    (rx("__V.visit_f32(f32::from_le_bytes(self.state.read_const_size_buf()?))"), lambda m: "AFloat32"),
    (rx("__V.visit_f64(f64::from_le_bytes(self.state.read_const_size_buf()?))"), lambda m: "AFloat64"),
    (rx("read_length_delimited(self.state, __LV__(__V))"), lambda m: "ALenDelimited %s" % LDV[m["LV"]]),
    (rx("__V.visit_seq(ArraySeqAccess { elements_schema: __b.as_ref(), block_reader: %s })" % BLOCK_READER),
        lambda m: "ASeq %s" % m["B"]),
    (rx("__V.visit_map(MapMapAccess { elements_schema: __b.as_ref(), block_reader: %s })" % BLOCK_READER),
        lambda m: "AMap %s" % m["B"]),
    (rx("""{ let mut __l0 = ArraySeqAccess { elements_schema: __b.as_ref(), block_reader: %s };
             let __l1 = __V.visit_seq(&mut __l0)?; __l0.block_reader.expect_end()?; Ok(__l1) }""" % BLOCK_READER),
        lambda m: "ATupleSeq %s" % m["B"]),
    (rx("""DatumDeserializer { schema_node: read_union_discriminant(self.state, __b)?, state: self.state,
                        allowed_depth: self.allowed_depth.dec()? }.deserialize_any(__V)"""), lambda m: "AUnion"),
    (rx("""__V.visit_map(RecordMapAccess { record_fields: __b.fields.iter(), state: self.state,
                                          allowed_depth: self.allowed_depth.dec()? })"""), lambda m: "ARecord"),
    (rx("read_enum_as_str(self.state, &__b.symbols, __V)"), lambda m: "AEnumStr"),
    (rx("self.state.read_slice(__b.size, __LV__(__V))"), lambda m: "AFixed %s" % LDV[m["LV"]]),
    (rx("self.state.read_slice(__N__, __LV__(__V))"), lambda m: "ASlice %s %s" % (m["N"], LDV[m["LV"]])),
    (rx("read_decimal(self.state, DecimalMode::Regular(__b), VisitorHint::__H__, __V)"),
        lambda m: "ADecimal DRegular %s" % HINT[m["H"]] if m["H"] in HINT else None),
    (rx("read_decimal(self.state, DecimalMode::Big, VisitorHint::__H__, __V)"),
        lambda m: "ADecimal DBig %s" % HINT[m["H"]] if m["H"] in HINT else None),
    (rx("__V.visit_map(DurationMapAndSeqAccess { duration_buf: &self.state.read_const_size_buf::<__N__>()? })"),
        lambda m: "ADuration DurMap %s" % m["N"]),
    (rx("__V.visit_seq(DurationMapAndSeqAccess { duration_buf: &self.state.read_const_size_buf::<__N__>()? })"),
        lambda m: "ADuration DurSeq %s" % m["N"]),
    (rx("{ self.state.read_const_size_buf::<__N__>()?; __V.__VM__() }"),
        lambda m: "AConst %s %s" % (m["N"], VMETH[m["VM"]]) if m["VM"] in VMETH else None),
    (rx("self.deserialize_any(__V)"), lambda m: "AFallbackAny"),
    (rx("""__V.visit_enum(SchemaTypeNameEnumAccess { variant_schema: read_union_discriminant(self.state, __b)?,
            state: self.state, allowed_depth: self.allowed_depth.dec()? })"""), lambda m: "AEnumUnion"),
    (rx("__V.visit_enum(UnitVariantEnumAccess { state: self.state, schema_node: __n, allowed_depth: self.allowed_depth.dec()? })"),
        lambda m: "AEnumUnitVariant"),
    (rx("__V.visit_enum(SchemaTypeNameEnumAccess { state: self.state, variant_schema: __n, allowed_depth: self.allowed_depth.dec()? })"),
        lambda m: "AEnumTypeName"),
]

def fn_context(params):
    """parameter renaming: the visitor (type V) -> __V, other named parameters -> __p0, __p1 ..
    params: [(pattern tokens, type tokens)] of rustast.Fn"""
    mapping, n = {}, 0
    for pat, ty in params:
        q = [x for x in pat if x != "mut"]
        if not ty and "self" in q:
            continue
        if len(q) == 1 and R.IDENT.match(q[0]):
            if q[0] == "_":
                continue
            if list(ty) == ["V"]:
                mapping[q[0]] = ["__V"]
            else:
                mapping[q[0]] = ["__p%d" % n]; n += 1
        else:
            raise ShapeError("parameter not understood: " + " ".join(pat))
    return mapping

class Source:
    """one source file, parsed once: its fns, the constants of the crate, the helpers of the file"""
    def __init__(self, path, crate_src=None):
        self.path = path
        self.items = A.scan_items(R.tokenize(open(path).read()))
        self.env = N.ConstEnv(crate_src)
        self.env.files[os.path.abspath(path)] = self.items
        self.helpers = N.Helpers(self.items, self.env, os.path.abspath(path))

    def fns_of(self, trait, ty):
        """{name: Fn} of `impl <trait> for <ty>` (trait None: the inherent impls of ty)"""
        out = {}
        for f in self.items.fns:
            if f.owner == (trait, ty) and not f.nested and f.body is not None:
                if f.name in out:
                    raise ShapeError("fn %s defined twice" % f.name)
                out[f.name] = f
        return out

    def macros_of(self, trait, ty):
        toks = R.tokenize(open(self.path).read())
        _, macros = R.functions(R.find_impl(toks, trait, ty))
        return macros

    def body(self, fn, self_type):
        return N.normalize_body(A.parse_block_tokens(fn.body), self.env, os.path.abspath(self.path), self_type)

def arm_texts(src, fn, body, outer, self_type):
    """canonical text of an arm body as written, then (lazily) with the same-file helpers it calls replaced by
    their bodies (one more level per element)"""
    yield N.canonical_text(body, outer)
    cur = body
    for _ in range(3):
        try:
            nxt = N.inline_helpers(N.as_block(cur), src.helpers, fn)
            nxt = N.normalize_body(nxt, src.env, os.path.abspath(src.path), self_type)
        except ShapeError:
            return
        if nxt == N.as_block(cur) or nxt == cur:
            return
        cur = nxt
        yield N.canonical_text(cur, outer)

def classify(texts):
    first = None
    for text in texts:
        if first is None:
            first = text
        for r, f in RULES:
            m = r.match(text)
            if m:
                a = f(m)
                if a is not None:
                    return a
        if text == OPTION_UNION_PIN:
            return "AOptionUnion"
    return "AUnknown %s" % R.coq_string(first)

def dispatch_match(body):
    """the normalised body of a dispatch method: -> the arms of its `match [*]self.schema_node`"""
    stmts = body[1]
    if len(stmts) != 1 or stmts[0][0] != "expr":
        raise ShapeError("body is not [aliases;] one expression")
    expr = stmts[0][1]
    if expr[0] != "match":
        raise ShapeError("body is not a match")
    scrut = expr[1]
    if scrut[0] == "unary" and scrut[1] == "*":
        scrut = scrut[2]              # match ergonomics: `match *self.schema_node` / `match self.schema_node`
    if A.text(scrut) != "self . schema_node":
        raise ShapeError("match over %s, not over self.schema_node" % A.text(scrut))
    return expr[2]

def table_of(src, fn):
    """-> rows [(dkind term, action term)] sorted by kind"""
    ctx = fn_context(fn.params)
    body = src.body(fn, "DatumDeserializer")
    rows = []
    for pat, guard, abody in dispatch_match(body):
        ptoks = []
        A.pr_pat(pat, ptoks)
        try:
            kinds, binder, _ = R.parse_pattern(ptoks)
        except ShapeError as e:
            rows.append((len(KINDS) + 1, "DKUnparsed %s" % R.coq_string(" ".join(ptoks)), "AUnknown %s" % R.coq_string(str(e))))
            continue
        outer = dict(ctx)
        for name, canon in (binder or {}).items():
            outer[name] = [canon]
        action = classify(arm_texts(src, fn, abody, outer, "DatumDeserializer"))
        if guard is not None:
            g = N.canonical_text(guard, outer)
            mg = re.match(r"^(\d+) == __p0\Z", g)
            if mg and not action.startswith("AUnknown"):
                action = "AGuardLen %s (%s)" % (mg.group(1), action)
            else:
                action = "AUnknown %s" % R.coq_string("if " + g + " => " + N.canonical_text(abody, outer))
        for kd in kinds:
            if kd == "_":
                rows.append((len(KINDS), "DKWild", action))
            elif kd in KINDS:
                rows.append((KINDS.index(kd), "DK Nk%s" % kd, action))
            else:
                rows.append((len(KINDS) + 1, "DKUnparsed %s" % R.coq_string("SchemaNode::" + kd), action))
    rows.sort(key=lambda r: (r[0], r[1]))        # stable: duplicated kinds keep source order
    return [(k, a) for _, k, a in rows]

def forward_of(src, fn, self_type="DatumDeserializer"):
    """a method that is not a match: the canonical text of its body"""
    ctx = fn_context(fn.params)
    body = src.body(fn, self_type)
    return N.canonical_text(body, ctx, statements=True)

def translate(path, crate_src=None):
    out = ["(* GENERATED by translators/gen_dispatch.py from serde_avro_fast/src/de/deserializer/mod.rs -- do not edit *)",
           "From Coq Require Import String List NArith.",
           "Require Import Base Kinds DispatchKinds.",
           "Import ListNotations.",
           "Open Scope string_scope.",
           "Open Scope N_scope."]
    fns, macros, err, src = {}, [], None, None
    try:
        src = Source(path, crate_src)
        fns = src.fns_of("Deserializer", "DatumDeserializer")
        macros = src.macros_of("Deserializer", "DatumDeserializer")
    except (ShapeError, OSError) as e:
        err = str(e)
    wanted = dict(TABLES)
    tables = {}
    forwards = []
    for name in sorted(fns):
        fn = fns[name]
        try:
            try:
                tables[name] = table_of(src, fn)
            except (IndexError, KeyError, TypeError, RecursionError, AttributeError) as e:
                raise ShapeError("construct not understood (%s)" % type(e).__name__)
        except ShapeError as e:
            if name in wanted:
                tables[name] = [("DKWild", "AUnknown %s" % R.coq_string("%s: %s" % (name, e)))]
            try:
                forwards.append((name, forward_of(src, fn)))
            except ShapeError as e2:
                forwards.append((name, "? " + str(e2)))
    for path_, mt in macros:
        if path_.endswith("forward_to_deserialize_any"):
            for x in mt:
                forwards.append(("deserialize_" + x, "forward_to_deserialize_any!"))
        else:
            forwards.append((path_ + "!", " ".join(mt)))
    forwards.sort()
    for meth, tbl in TABLES:
        rows = tables.get(meth)
        if rows is None:
            rows = [("DKWild", "AUnknown %s" % R.coq_string("%s not found%s" % (meth, ": " + err if err else "")))]
        out.append("(* fn %s *)" % meth)
        out.append("Definition %s : list (dkind * daction) :=\n  [ %s ]." % (tbl, ";\n    ".join("(%s, %s)" % r for r in rows)))
    extra = sorted(n for n in tables if n not in wanted)
    out.append("(* methods that are not a match over the node kind: what their body is (canonical text). A method that")
    out.append("   is a match but has no table above is listed with the text \"match\" *)")
    for n in extra:
        forwards.append((n, "match"))
    forwards.sort()
    out.append("Definition gen_de_forward : list (string * string) :=\n  [ %s ]." % ";\n    ".join(
        "(%s, %s)" % (R.coq_string(a), R.coq_string(b)) for a, b in forwards))
    return "\n".join(out) + "\n"

if __name__ == "__main__":
    repo, outp = sys.argv[1], sys.argv[2]
    txt = translate(repo + "/serde_avro_fast/src/de/deserializer/mod.rs", repo + "/serde_avro_fast/src")
    try:
        old = open(outp).read()
    except OSError:
        old = None
    if old != txt:
        open(outp, "w").write(txt)
