#!/usr/bin/env python3
"""Regenerates coq/gen/GenDeDispatch.v from serde_avro_fast/src/de/deserializer/mod.rs:
for every method of `impl Deserializer for DatumDeserializer` that is a `match` over the schema node,
the table (node kind -> symbolic action) of its arms; for every other method, what it forwards to.

Usage: gen_dispatch.py <repo> <out.v>

The action symbols (model/DispatchKinds.v) are recovered from the canonicalised text of the arm body
(rustmatch.py): robust against whitespace, comments, arm order, renamed locals / parameters / pattern
bindings, `self.state` vs a let-bound alias, message texts; NOT robust against the integer type read, the
visitor method called, the flag given to BlockReader::new, a constant size, a guard, an added or removed
arm, an added statement. An arm that is not recognised becomes `AUnknown "<canonical text>"` (the
translator never fails on it): the tie theorem (proofs/DeDispatchTie.v) then fails and shows the arm."""
import re, sys
sys.path.insert(0, __file__.rsplit("/", 1)[0])
import rustmatch as R
from rustmatch import ShapeError

KINDS = ["Null", "Boolean", "Int", "Long", "Float", "Double", "Bytes", "String", "Array", "Map",
         "Union", "Record", "Enum", "Fixed", "Decimal", "BigDecimal", "Uuid", "Date", "TimeMillis",
         "TimeMicros", "TimestampMillis", "TimestampMicros", "Duration"]

# methods expected to be a match over the node kind: (method, name of the generated table)
TABLES = [("deserialize_any", "gen_de_any"), ("deserialize_ignored_any", "gen_de_ignored"),
          ("deserialize_u64", "gen_de_u64"), ("deserialize_i64", "gen_de_i64"),
          ("deserialize_u128", "gen_de_u128"), ("deserialize_i128", "gen_de_i128"),
          ("deserialize_f64", "gen_de_f64"), ("deserialize_str", "gen_de_str"),
          ("deserialize_bytes", "gen_de_bytes"), ("deserialize_option", "gen_de_option"),
          ("deserialize_seq", "gen_de_seq"), ("deserialize_tuple", "gen_de_tuple"),
          ("deserialize_enum", "gen_de_enum"), ("deserialize_identifier", "gen_de_identifier")]

PH = {
    "__W__": r"(?P<W>[iu](?:8|16|32|64|128|size))",
    "__VM__": r"visit_(?P<VM>[a-z0-9_]+)",
    "__LV__": r"(?P<LV>BytesVisitor|StringVisitor)",
    "__B__": r"(?P<B>true|false)",
    "__N__": r"(?P<N>\d+)",
    "__H__": r"(?P<H>[A-Za-z0-9]+)",
    "__ANY__": r"(?P<ANY>.*?)",
    "__SELFTY__": r"(?:Self|DatumDeserializer)",
}

def rx(template):
    toks = R.drop_trailing_commas(R.tokenize(template))
    return re.compile(" ".join(PH.get(t, re.escape(t)) for t in toks) + r"\Z")

BLOCK_READER = "BlockReader::new(self.state, __B__, self.allowed_depth.dec()?)"
INT_OF_VISIT = {"i32": "i32", "i64": "i64", "u32": "u32", "u64": "u64"}
WIDTH = {"i32": "Wi32", "i64": "Wi64", "u32": "Wu32", "u64": "Wu64"}
VMETH = {"unit": "Vunit", "i32": "Vi32", "i64": "Vi64", "u32": "Vu32", "u64": "Vu64"}
LDV = {"BytesVisitor": "LBytes", "StringVisitor": "LStr"}
HINT = {"Str": "DHStr", "U64": "DHU64", "I64": "DHI64", "U128": "DHU128", "I128": "DHI128", "F64": "DHF64"}

def varint(w, vm):
    if w in WIDTH and vm in VMETH:
        return "AVarint %s %s" % (WIDTH[w], VMETH[vm])
    return None
def varint_try(w, vm):
    if w in WIDTH and vm in VMETH and vm != "unit":
        return "AVarintTry %s %s" % (WIDTH[w], VMETH[vm])
    return None
def balanced(s):
    try:
        t = s.split(" ") if s else []
        d = 0
        for x in t:
            if x in R.OPEN: d += 1
            elif x in R.CLOSE:
                d -= 1
                if d < 0: return False
        return d == 0
    except Exception:
        return False

OPTION_UNION_PIN = " ".join(R.drop_trailing_commas(R.tokenize("""{
    let __l0: usize = read_discriminant(self.state)?;
    match __b.variants.get(__l0).map(|&__c0| __c0.as_ref()) {
        None => Err(DeError::new("_")),
        Some(SchemaNode::Null) => __V.visit_none(),
        Some(variant_schema) if __b.variants.len() == 2 && matches!(*__b.variants[1 - __l0], SchemaNode::Null) => {
            __V.visit_some(DatumDeserializer { state: self.state, schema_node: variant_schema, allowed_depth: self.allowed_depth.dec()? })
        }
        Some(variant_schema) => {
            __V.visit_some(FavorSchemaTypeNameIfEnumHintDatumDeserializer {
                inner: DatumDeserializer { state: self.state, schema_node: variant_schema, allowed_depth: self.allowed_depth.dec()? },
            })
        }
    }
}""")))

# (regex over the canonical text, function match -> Coq term or None)
RULES = [
    (rx("__V.visit_unit()"), lambda m: "AVisitUnit"),
    (rx("__V.visit_none()"), lambda m: "AVisitNone"),
    (rx("__V.visit_some(self)"), lambda m: "AVisitSomeSelf"),
    (rx("read_bool(self.state, __V)"), lambda m: "AReadBool"),
    # the integer type read is the parameter type of the visitor method (inference), or the annotation / turbofish
    (rx("__V.__VM__(self.state.read_varint()?)"), lambda m: varint(INT_OF_VISIT.get(m["VM"]), m["VM"])),
    (rx("__V.__VM__(self.state.read_varint::<__W__>()?)"), lambda m: varint(m["W"], m["VM"])),
    (rx("{ let _: __W__ = self.state.read_varint()?; __V.__VM__() }"), lambda m: varint(m["W"], m["VM"])),
    (rx("{ self.state.read_varint::<__W__>()?; __V.__VM__() }"), lambda m: varint(m["W"], m["VM"])),
    (rx("{ let __l0: __W__ = self.state.read_varint()?; __V.__VM__(__l0) }"),
        lambda m: varint(m["W"], m["VM"]) if INT_OF_VISIT.get(m["VM"]) == m["W"] else None),
    (rx("{ let __l0: __W__ = self.state.read_varint()?; __V.__VM__(__l0.try_into().map_err(__ANY__)?) }"),
        lambda m: varint_try(m["W"], m["VM"]) if balanced(m["ANY"]) else None),
    (rx("__V.__VM__({ let __l0: __W__ = self.state.read_varint()?; __l0.try_into().map_err(__ANY__)? })"),
        lambda m: varint_try(m["W"], m["VM"]) if balanced(m["ANY"]) else None),
    (rx("__V.visit_f32(f32::from_le_bytes(self.state.read_const_size_buf()?))"), lambda m: "AFloat32"),
    (rx("__V.visit_f64(f64::from_le_bytes(self.state.read_const_size_buf()?))"), lambda m: "AFloat64"),
    (rx("read_length_delimited(self.state, __LV__(__V))"), lambda m: "ALenDelimited %s" % LDV[m["LV"]]),
    (rx("__V.visit_seq(ArraySeqAccess { elements_schema: __b.as_ref(), block_reader: %s })" % BLOCK_READER),
        lambda m: "ASeq %s" % m["B"]),
    (rx("__V.visit_map(MapMapAccess { elements_schema: __b.as_ref(), block_reader: %s })" % BLOCK_READER),
        lambda m: "AMap %s" % m["B"]),
    (rx("""{ let mut __l0 = ArraySeqAccess { elements_schema: __b.as_ref(), block_reader: %s };
             let __l1 = __V.visit_seq(&mut __l0)?; __l0.block_reader.expect_end()?; Ok(__l1) }""" % BLOCK_READER),
        lambda m: "ATupleSeq %s" % m["B"]),
    (rx("""__SELFTY__ { schema_node: read_union_discriminant(self.state, __b)?, state: self.state,
                        allowed_depth: self.allowed_depth.dec()? }.deserialize_any(__V)"""), lambda m: "AUnion"),
    (rx("""__V.visit_map(RecordMapAccess { record_fields: __b.fields.iter(), state: self.state,
                                          allowed_depth: self.allowed_depth.dec()? })"""), lambda m: "ARecord"),
    (rx("read_enum_as_str(self.state, &__b.symbols, __V)"), lambda m: "AEnumStr"),
    (rx("self.state.read_slice(__b.size, __LV__(__V))"), lambda m: "AFixed %s" % LDV[m["LV"]]),
    (rx("self.state.read_slice(__N__, __LV__(__V))"), lambda m: "ASlice %s %s" % (m["N"], LDV[m["LV"]])),
    (rx("read_decimal(self.state, DecimalMode::Regular(__b), VisitorHint::__H__, __V)"),
        lambda m: "ADecimal DRegular %s" % HINT[m["H"]] if m["H"] in HINT else None),
    (rx("read_decimal(self.state, DecimalMode::Big, VisitorHint::__H__, __V)"),
        lambda m: "ADecimal DBig %s" % HINT[m["H"]] if m["H"] in HINT else None),
    (rx("__V.visit_map(DurationMapAndSeqAccess { duration_buf: &self.state.read_const_size_buf::<__N__>()? })"),
        lambda m: "ADuration DurMap %s" % m["N"]),
    (rx("__V.visit_seq(DurationMapAndSeqAccess { duration_buf: &self.state.read_const_size_buf::<__N__>()? })"),
        lambda m: "ADuration DurSeq %s" % m["N"]),
    (rx("{ self.state.read_const_size_buf::<__N__>()?; __V.__VM__() }"),
        lambda m: "AConst %s %s" % (m["N"], VMETH[m["VM"]]) if m["VM"] in VMETH else None),
    (rx("self.deserialize_any(__V)"), lambda m: "AFallbackAny"),
    (rx("""__V.visit_enum(SchemaTypeNameEnumAccess { variant_schema: read_union_discriminant(self.state, __b)?,
            state: self.state, allowed_depth: self.allowed_depth.dec()? })"""), lambda m: "AEnumUnion"),
    (rx("__V.visit_enum(UnitVariantEnumAccess { state: self.state, schema_node: __n, allowed_depth: self.allowed_depth.dec()? })"),
        lambda m: "AEnumUnitVariant"),
    (rx("__V.visit_enum(SchemaTypeNameEnumAccess { state: self.state, variant_schema: __n, allowed_depth: self.allowed_depth.dec()? })"),
        lambda m: "AEnumTypeName"),
]

def fn_context(params):
    """parameter renaming: the visitor (type V) -> __V, other named parameters -> __p0, __p1 .."""
    mapping, n = {}, 0
    for p in params:
        q = [x for x in p if x != "mut"]
        if "self" in q[:3] and ":" not in q:
            continue
        if len(q) >= 3 and q[1] == ":" and R.IDENT.match(q[0]):
            if q[0] == "_":
                continue
            if q[2:] == ["V"]:
                mapping[q[0]] = ["__V"]
            else:
                mapping[q[0]] = ["__p%d" % n]; n += 1
        else:
            raise ShapeError("parameter not understood: " + " ".join(p))
    return mapping

def canon_arm(body, binder, ctx):
    body = R.drop_trailing_commas(body)
    body = R.unwrap_closure_blocks(body)
    body = R.unwrap_block(body)
    al = {}
    if body and body[0] == "{" and R.match_close(body, 0) == len(body) - 1:
        stmts = R.split_top(body[1:-1], ";")
        al, rest = R.take_aliases(stmts)
        inner = []
        for i, s in enumerate(rest):
            if i:
                inner.append(";")
            inner.extend(s)
        body = R.unwrap_block(["{"] + inner + ["}"])
    m = dict(ctx)
    m.update(al)
    for name, canon in (binder or {}).items():
        m[name] = [canon]
    body = R.subst(body, m)
    body = R.rename_bound(body)
    body = R.blank_strings(body)
    return " ".join(body)

def classify(text):
    for r, f in RULES:
        m = r.match(text)
        if m:
            a = f(m)
            if a is not None:
                return a
    if text == OPTION_UNION_PIN:
        return "AOptionUnion"
    return "AUnknown %s" % R.coq_string(text)

def table_of(params, body):
    """-> rows [(dkind term, action term)] sorted by kind"""
    ctx = fn_context(params)
    stmts = R.split_top(body, ";")
    al, rest = R.take_aliases(stmts)
    if len(rest) != 1 or not rest[0]:
        raise ShapeError("body is not [aliases;] one expression")
    expr = R.subst(rest[0], al)
    if expr[0] != "match":
        raise ShapeError("body is not a match")
    k = 1
    while k < len(expr) and expr[k] != "{":
        k += 1
    if k >= len(expr) or R.match_close(expr, k) != len(expr) - 1:
        raise ShapeError("body is not a single match")
    scrut = [x for x in expr[1:k]]
    if scrut[:1] == ["*"]:
        scrut = scrut[1:]             # match ergonomics: `match *self.schema_node` / `match self.schema_node`
    if scrut != ["self", ".", "schema_node"]:
        raise ShapeError("match over %s, not over self.schema_node" % " ".join(scrut))
    ctx2 = dict(ctx)
    ctx2.update(al)
    rows = []
    for pat, abody in R.split_arms(expr[k + 1:-1]):
        try:
            kinds, binder, guard = R.parse_pattern(pat)
        except ShapeError as e:
            rows.append((len(KINDS) + 1, "DKUnparsed %s" % R.coq_string(" ".join(pat)), "AUnknown %s" % R.coq_string(str(e))))
            continue
        action = classify(canon_arm(abody, binder, ctx2))
        if guard is not None:
            g = " ".join(R.subst(guard, ctx2))
            mg = re.match(r"^__p0 == (\d+)\Z", g)
            if mg and not action.startswith("AUnknown"):
                action = "AGuardLen %s (%s)" % (mg.group(1), action)
            else:
                action = "AUnknown %s" % R.coq_string("if " + g + " => " + canon_arm(abody, binder, ctx2))
        for kd in kinds:
            if kd == "_":
                rows.append((len(KINDS), "DKWild", action))
            elif kd in KINDS:
                rows.append((KINDS.index(kd), "DK Nk%s" % kd, action))
            else:
                rows.append((len(KINDS) + 1, "DKUnparsed %s" % R.coq_string("SchemaNode::" + kd), action))
    rows.sort(key=lambda r: (r[0], r[1]))        # stable: duplicated kinds keep source order
    return [(k, a) for _, k, a in rows]

def forward_of(params, body):
    """a method that is not a match: the canonical text of its body"""
    ctx = fn_context(params)
    stmts = R.split_top(body, ";")
    al, rest = R.take_aliases(stmts)
    m = dict(ctx); m.update(al)
    inner = []
    for i, s in enumerate(rest):
        if i:
            inner.append(";")
        inner.extend(s)
    t = R.blank_strings(R.rename_bound(R.subst(R.unwrap_closure_blocks(R.drop_trailing_commas(inner)), m)))
    return " ".join(t)

def translate(path):
    out = ["(* GENERATED by translators/gen_dispatch.py from serde_avro_fast/src/de/deserializer/mod.rs -- do not edit *)",
           "From Coq Require Import String List NArith.",
           "Require Import Base Kinds DispatchKinds.",
           "Import ListNotations.",
           "Open Scope string_scope.",
           "Open Scope N_scope."]
    fns, macros, err = {}, [], None
    try:
        toks = R.tokenize(open(path).read())
        impl = R.find_impl(toks, "Deserializer", "DatumDeserializer")
        fns, macros = R.functions(impl)
    except (ShapeError, OSError) as e:
        err = str(e)
    wanted = dict(TABLES)
    tables = {}
    forwards = []
    for name in sorted(fns):
        params, body = fns[name]
        try:
            tables[name] = table_of(params, body)
        except ShapeError as e:
            if name in wanted:
                tables[name] = [("DKWild", "AUnknown %s" % R.coq_string("%s: %s" % (name, e)))]
            try:
                forwards.append((name, forward_of(params, body)))
            except ShapeError as e2:
                forwards.append((name, "? " + str(e2)))
    for path_, mt in macros:
        if path_.endswith("forward_to_deserialize_any"):
            for x in mt:
                forwards.append(("deserialize_" + x, "forward_to_deserialize_any!"))
        else:
            forwards.append((path_ + "!", " ".join(mt)))
    forwards.sort()
    for meth, tbl in TABLES:
        rows = tables.get(meth)
        if rows is None:
            rows = [("DKWild", "AUnknown %s" % R.coq_string("%s not found%s" % (meth, ": " + err if err else "")))]
        out.append("(* fn %s *)" % meth)
        out.append("Definition %s : list (dkind * daction) :=\n  [ %s ]." % (tbl, ";\n    ".join("(%s, %s)" % r for r in rows)))
    extra = sorted(n for n in tables if n not in wanted)
    out.append("(* methods that are not a match over the node kind: what their body is (canonical text). A method that")
    out.append("   is a match but has no table above is listed with the text \"match\" *)")
    for n in extra:
        forwards.append((n, "match"))
    forwards.sort()
    out.append("Definition gen_de_forward : list (string * string) :=\n  [ %s ]." % ";\n    ".join(
        "(%s, %s)" % (R.coq_string(a), R.coq_string(b)) for a, b in forwards))
    return "\n".join(out) + "\n"

if __name__ == "__main__":
    repo, outp = sys.argv[1], sys.argv[2]
    txt = translate(repo + "/serde_avro_fast/src/de/deserializer/mod.rs")
    try:
        old = open(outp).read()
    except OSError:
        old = None
    if old != txt:
        open(outp, "w").write(txt)
