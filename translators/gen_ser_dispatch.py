#!/usr/bin/env python3
"""Regenerates coq/gen/GenSerDispatch.v from serde_avro_fast/src/ser/serializer/mod.rs:
for every method of `impl Serializer for DatumSerializer` (and of the inherent `impl DatumSerializer`)
that is a `match` over the schema node, the table (node kind -> symbolic action) of its arms; for every
other method, the canonical text of its body.

Usage: gen_ser_dispatch.py <repo> <out.v>

Same machinery and same robustness contract as gen_dispatch.py (rustmatch.py). The serializer's arms carry
range checks, buffer management and nested lookups; the common shapes are classified (write_all of the
value's bytes, length-delimited write, range-checked varint, exact-length checks, union by type key,
rejection, decimal conversions); an arm that is not recognised becomes `SUnclassified` with its canonical
text in a COMMENT next to the row: the tie (proofs/SerDispatchTie.v) then still pins WHICH kinds have an arm
in each method, but not what an unclassified arm does (left to the correspondence runs; listed in the
generated file)."""
import os, re, sys
sys.path.insert(0, os.path.dirname(os.path.abspath(__file__)))
import rustmatch as R
import rustast as A
import rustnorm as N
import gen_dispatch as D
from rustmatch import ShapeError
from gen_dispatch import KINDS, fn_context, balanced, Source, dispatch_match, arm_texts

TABLES = [("serialize_bool", "gen_ser_bool"), ("serialize_integer", "gen_ser_integer"),
          ("serialize_f32", "gen_ser_f32"), ("serialize_f64", "gen_ser_f64"),
          ("serialize_str", "gen_ser_str"), ("serialize_bytes", "gen_ser_bytes"),
          ("serialize_unit", "gen_ser_unit"), ("serialize_unit_struct", "gen_ser_unit_struct"),
          ("serialize_unit_variant", "gen_ser_unit_variant"), ("serialize_seq", "gen_ser_seq"),
          ("serialize_map", "gen_ser_map")]

UKEYS = ["Null", "UnitStruct", "Boolean", "Integer", "Integer4", "Integer8", "Float4", "Float8", "Str",
         "SliceU8", "UnitVariant", "StructOrMap", "SeqOrTupleOrTupleStruct"]

PH = {
    "__W__": r"(?P<W>[iu](?:8|16|32|64|128|size))",
    "__N__": r"(?P<N>\d+)",
    "__K__": r"(?P<K>[A-Za-z0-9]+)",
    "__M__": r"(?P<M>[a-z_0-9]+)",
    "__P__": r"__p(?P<P>\d+)",
    "__ANY__": r"(?P<ANY>.*?)",
    "__ANY2__": r"(?P<ANY2>.*?)",
    "__ARGS__": r"(?P<ARGS>(?:__p\d+(?: , __p\d+)*)?)",
    "__ERR__": r"(?:SerError :: custom|SerError :: new)",
}
def rx(template):
    return D.rx(template, PH, "DatumSerializer")

WRITE_ALL = "self.state.writer.write_all(%s).map_err(SerError::io)"
INTW = {"i32": "Wi32", "i64": "Wi64"}

def via_union(m, fn, nparams):
    if m["K"] not in UKEYS or m["M"] != fn:
        return None
    if m["ARGS"] != " , ".join("__p%d" % i for i in range(nparams)):
        return None
    return "SViaUnion K%s" % m["K"]

def mk_rules(fn, nparams):
    ok = lambda m: all(balanced(m.groupdict().get(g) or "") for g in ("ANY", "ANY2"))
    return [
        (rx(WRITE_ALL % "&[__p0 as u8]"), lambda m: "SWriteBoolByte"),
        (rx(WRITE_ALL % "&__p0.to_le_bytes()"), lambda m: "SWriteLeBytes"),
        (rx(WRITE_ALL % "&(__p0 as f32).to_le_bytes()"), lambda m: "SWriteLeBytesAsF32"),
        (rx("Err(__ERR__(__ANY__))"), lambda m: "SReject" if ok(m) else None),
        (rx("self.serialize_union_unnamed(__b, UnionVariantLookupKey::__K__, |__c0| __c0.__M__(__ARGS__))"),
            lambda m: via_union(m, fn, nparams)),
        (rx("self.serialize_union_unnamed(__b, UnionVariantLookupKey::__K__, |_| Ok(()))"),
            lambda m: "SViaUnionDone K%s" % m["K"] if m["K"] in UKEYS else None),
        (rx("""self.serialize_union_unnamed(__b, match std::mem::size_of::<N>() {
                4 => UnionVariantLookupKey::Integer4, 8 => UnionVariantLookupKey::Integer8, _ => UnionVariantLookupKey::Integer },
                |__c0| __c0.__M__(__ARGS__))"""),
            lambda m: "SViaUnionIntKey" if m["M"] == fn and m["ARGS"] == "__p0" else None),
        (rx("self.state.write_length_delimited(__p0.as_bytes())"), lambda m: "SWriteLd"),
        (rx("self.state.write_length_delimited(__p0)"), lambda m: "SWriteLd"),
        (rx("Ok(())"), lambda m: "SOk"),
        (rx("self.serialize_str(__P__)"), lambda m: "SAsStr %s" % m["P"]),
        (rx("""{ self.state.writer.write_varint::<__W__>(__p0.try_into().map_err(__ANY__)?).map_err(SerError::io)?; Ok(()) }"""),
            lambda m: "SWriteVarintTry %s" % INTW[m["W"]] if ok(m) and m["W"] in INTW else None),
        (rx("if *__f_size != __p0.len() { Err(__ERR__(__ANY__)) } else { %s }" % (WRITE_ALL % "__p0.as_bytes()")),
            lambda m: "SFixedExact" if ok(m) else None),
        (rx("if *__f_size != __p0.len() { Err(__ERR__(__ANY__)) } else { %s }" % (WRITE_ALL % "__p0")),
            lambda m: "SFixedExact" if ok(m) else None),
        (rx("if __p0.len() != __N__ { Err(__ERR__(__ANY__)) } else { %s }" % (WRITE_ALL % "__p0")),
            lambda m: "SLenExact %s" % m["N"] if ok(m) else None),
        (rx("if std::str::from_utf8(__p0).is_err() { return Err(__ERR__(__ANY__)); } self.state.write_length_delimited(__p0)"),
            lambda m: "SWriteLdUtf8Checked" if ok(m) else None),
        (rx("""{ let __l0: i64 = __p0.try_into().map_err(__ANY__)?;
                 if usize::try_from(__l0).map_or(true, |__c0| __c0 >= __b.symbols.len()) { return Err(__ERR__(__ANY2__)); }
                 self.state.writer.write_varint::<i64>(__l0).map_err(SerError::io)?; Ok(()) }"""),
            lambda m: "SEnumDiscriminant" if ok(m) else None),
        (rx("""{ let __l0 = __f_per_name_lookup.get(__p0).copied().ok_or_else(__ANY__)?;
                 self.state.writer.write_varint::<i64>(__l0.try_into().map_err(__ANY2__)?).map_err(SerError::io)?; Ok(()) }"""),
            lambda m: "SEnumByName" if ok(m) else None),
        (rx("Ok(SerializeSeqOrTupleOrTupleStruct::array(BlockWriter::new(self.state, __p0.unwrap_or(0))?, __b.as_ref()))"),
            lambda m: "SSeqArray"),
        (rx("""if __p0.map_or(false, |__c0| __c0 != __N__) { Err(seq_or_tuple::duration_seq_len_incorrect()) }
               else { Ok(SerializeSeqOrTupleOrTupleStruct::duration(self.state)) }"""), lambda m: "SSeqDuration %s" % m["N"]),
        (rx("""{ self.state.check_allowed_slow_sequence_to_bytes()?;
                 match __p0 { None => Ok(SerializeSeqOrTupleOrTupleStruct::buffered_bytes(self.state)),
                              Some(__p0) => SerializeSeqOrTupleOrTupleStruct::bytes(self.state, __p0) } }"""), lambda m: "SSeqBytes"),
        (rx("""{ self.state.check_allowed_slow_sequence_to_bytes()?;
                 if __p0.map_or(false, |__c0| __c0 != __b.size) { Err(__ERR__(__ANY__)) }
                 else { Ok(SerializeSeqOrTupleOrTupleStruct::fixed(self.state, __b.size)) } }"""),
            lambda m: "SSeqFixed" if ok(m) else None),
        (rx("Ok(SerializeMapAsRecordOrMapOrDuration::record(self.state, __b))"), lambda m: "SMapRecord"),
        (rx("SerializeMapAsRecordOrMapOrDuration::map(self.state, __b.as_ref(), __p0.unwrap_or(0))"), lambda m: "SMapMap"),
        (rx("""if __p0.map_or(false, |__c0| __c0 != __N__) { return Err(struct_or_map::duration_fields_incorrect()); }
               SerializeMapAsRecordOrMapOrDuration::duration(self.state)"""), lambda m: "SMapDuration %s" % m["N"]),
        (rx("""{ let __l0: rust_decimal::Decimal = __p0.parse().map_err(__ANY__)?;
                 decimal::serialize(self.state, decimal::DecimalMode::Regular(__b), __l0) }"""),
            lambda m: "SDecimalParse DRegular" if ok(m) else None),
        (rx("""{ let __l0: rust_decimal::Decimal = __p0.parse().map_err(__ANY__)?;
                 decimal::serialize(self.state, decimal::DecimalMode::Big, __l0) }"""),
            lambda m: "SDecimalParse DBig" if ok(m) else None),
        (rx("""{ let __l0: rust_decimal::Decimal = num_traits::FromPrimitive::from_f64(__p0).ok_or_else(__ANY__)?;
                 decimal::serialize(self.state, decimal::DecimalMode::Regular(__b), __l0) }"""),
            lambda m: "SDecimalFromF64 DRegular" if ok(m) else None),
        (rx("""{ let __l0: rust_decimal::Decimal = num_traits::FromPrimitive::from_f64(__p0).ok_or_else(__ANY__)?;
                 decimal::serialize(self.state, decimal::DecimalMode::Big, __l0) }"""),
            lambda m: "SDecimalFromF64 DBig" if ok(m) else None),
    ]

def table_of(src, fn):
    ctx = fn_context(fn.params)
    nparams = len(ctx)
    rules = mk_rules(fn.name, nparams)
    body = src.body(fn, "DatumSerializer")
    rows = []
    for pat, guard, abody in dispatch_match(body):
        ptoks = []
        A.pr_pat(pat, ptoks)
        try:
            kinds, binds, _ = R.parse_pattern(ptoks)
        except ShapeError as e:
            rows.append((len(KINDS) + 1, "DKUnparsed %s" % R.coq_string(" ".join(ptoks)), "SUnclassified", str(e)))
            continue
        outer = dict(ctx)
        for name, canon in (binds or {}).items():
            outer[name] = [canon]
        action, note, first = None, "", None
        for text in arm_texts(src, fn, abody, outer, "DatumSerializer"):
            if first is None:
                first = text
            for r, f in rules:
                m = r.match(text)
                if m:
                    action = f(m)
                    if action is not None:
                        break
            if action is not None:
                break
        text = first
        if guard is not None:
            # the one guard of this file compares a &str parameter with a literal: the literal is load-bearing
            g = N.canonical_text(guard, outer, blank=False)
            mg = re.match(r'^("(?:[A-Za-z0-9_]*)") == __p(\d+)\Z', g)
            if mg and action is not None:
                action = "SIfParamIs %s %s (%s)" % (mg.group(2), mg.group(1), action)
            else:
                action, note = None, "if " + g + " => "
        if action is None:
            action, note = "SUnclassified", note + text
        for kd in kinds:
            if kd == "_":
                rows.append((len(KINDS), "DKWild", action, note))
            elif kd in KINDS:
                rows.append((KINDS.index(kd), "DK Nk%s" % kd, action, note))
            else:
                rows.append((len(KINDS) + 1, "DKUnparsed %s" % R.coq_string("SchemaNode::" + kd), action, note))
    rows.sort(key=lambda r: (r[0], r[1]))
    return [(k, a, n) for _, k, a, n in rows]

def forward_of(src, fn):
    return D.forward_of(src, fn, "DatumSerializer")

def comment_safe(s):
    return s.replace("(*", "( *").replace("*)", "* )")

def translate(path, crate_src=None):
    out = ["(* GENERATED by translators/gen_ser_dispatch.py from serde_avro_fast/src/ser/serializer/mod.rs -- do not edit *)",
           "From Coq Require Import String List NArith.",
           "Require Import Base Kinds DispatchKinds SerDispatchKinds.",
           "Import ListNotations.",
           "Open Scope string_scope.",
           "Open Scope N_scope."]
    fns, err, src = {}, None, None
    try:
        src = Source(path, crate_src)
        for trait in ("Serializer", None):
            for k, v in src.fns_of(trait, "DatumSerializer").items():
                if k in fns:
                    raise ShapeError("fn %s defined twice" % k)
                fns[k] = v
    except (ShapeError, OSError) as e:
        err = str(e)
    wanted = dict(TABLES)
    tables, forwards, unclassified = {}, [], []
    for name in sorted(fns):
        fn = fns[name]
        try:
            try:
                tables[name] = table_of(src, fn)
            except (IndexError, KeyError, TypeError, RecursionError, AttributeError) as e:
                raise ShapeError("construct not understood (%s)" % type(e).__name__)
        except ShapeError as e:
            if name in wanted:
                tables[name] = [("DKWild", "SUnclassified", "%s: %s" % (name, e))]
            try:
                forwards.append((name, forward_of(src, fn)))
            except ShapeError as e2:
                forwards.append((name, "? " + str(e2)))
    for meth, tbl in TABLES:
        rows = tables.get(meth)
        if rows is None:
            rows = [("DKUnparsed %s" % R.coq_string("%s not found%s" % (meth, ": " + err if err else "")), "SUnclassified", "")]
        out.append("(* fn %s *)" % meth)
        lines = []
        for i, (k, a, n) in enumerate(rows):
            sep = ";" if i + 1 < len(rows) else " "
            lines.append("(%s, %s)%s%s" % (k, a, sep, ("   (* " + comment_safe(n)[:700] + " *)") if n else ""))
            if a == "SUnclassified":
                unclassified.append("%s / %s" % (meth, k))
        out.append("Definition %s : list (dkind * saction) :=\n  [ %s ]." % (tbl, "\n    ".join(lines)))
    for n in sorted(t for t in tables if t not in wanted):
        forwards.append((n, "match"))
    forwards.sort()
    out.append("(* methods that are not a match over self.schema_node: the canonical text of their body when it is one")
    out.append("   expression without blocks (these texts are what proofs/SerDispatchTie.v pins); the longer bodies are")
    out.append("   listed by name, their text is in the comment that follows (not pinned) *)")
    COMPLEX = "<body with blocks: see the comment below>"
    long_texts = [(a, b) for a, b in forwards if "{" in b.split(" ")]
    out.append("Definition gen_ser_forward : list (string * string) :=\n  [ %s ]." % ";\n    ".join(
        "(%s, %s)" % (R.coq_string(a), R.coq_string(COMPLEX if "{" in b.split(" ") else b, limit=1200)) for a, b in forwards))
    for a, b in long_texts:
        out.append("(* %s: %s *)" % (a, comment_safe(b)[:1500]))
    out.append("(* arms left unclassified (their text is in the comments above): %d" % len(unclassified))
    for u in unclassified:
        out.append("     " + u)
    out.append("*)")
    return "\n".join(out) + "\n"

if __name__ == "__main__":
    repo, outp = sys.argv[1], sys.argv[2]
    txt = translate(repo + "/serde_avro_fast/src/ser/serializer/mod.rs", repo + "/serde_avro_fast/src")
    try:
        old = open(outp).read()
    except OSError:
        old = None
    if old != txt:
        open(outp, "w").write(txt)
