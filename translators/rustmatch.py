"""(The canonicalisation of bodies now lives in rustast.py / rustnorm.py; of this file the translators use the lexer,
bracket matching, `find_impl` / `functions` (macro invocations of an impl), `parse_pattern` (arm patterns), `subst`,
`drop_trailing_commas`, `blank_strings` and `coq_string`.)

Token-level helpers for the dispatch translators (gen_dispatch.py, gen_ser_dispatch.py):
a small Rust lexer (comments dropped, string literals kept as one token), lookup of a `fn` inside an
`impl` block, splitting of a `match` into arms, parsing of `SchemaNode::..` arm patterns, and the
canonicalisation of an arm body (aliases of self.<field> substituted, bound names renamed in binding
order, string literals blanked, trailing commas dropped) so that harmless rewrites give the same text
and every other edit gives a different one."""
import re

class ShapeError(Exception):
    """the source is not in the shape this translator understands (-> an AUnknown row, never a crash)"""

TOKEN = re.compile(r"""
    (?P<ws>\s+)
  | (?P<lc>//[^\n]*)
  | (?P<bc>/\*.*?\*/)
  | (?P<rstr>b?r(?P<h>\#*)".*?"(?P=h))
  | (?P<str>b?"(?:[^"\\]|\\.)*")
  | (?P<chr>b?'(?:[^'\\]|\\.[^']*)')
  | (?P<life>'[A-Za-z_][A-Za-z0-9_]*)
  | (?P<num>0[xob][0-9A-Fa-f_]+(?:[iu](?:8|16|32|64|128|size))?|\d[\d_]*(?:\.\d[\d_]*)?(?:[eE][+-]?\d+)?(?:_?[iuf](?:8|16|32|64|128|size))?)
  | (?P<id>(?:r\#)?[A-Za-z_][A-Za-z0-9_]*)
  | (?P<p3>\.\.=|\.\.\.|<<=|>>=)
  | (?P<p2>=>|::|->|\.\.|&&|\|\||==|!=|<=|>=|\+=|-=|\*=|/=|%=|\^=|&=|\|=)
  | (?P<p1>[^\sA-Za-z0-9_])
""", re.X | re.S)

def tokenize(src):
    out, i = [], 0
    while i < len(src):
        m = TOKEN.match(src, i)
        if not m:
            raise ShapeError("cannot tokenize at %r" % src[i:i + 30])
        i = m.end()
        k = m.lastgroup
        if k in ("ws", "lc", "bc"):
            continue
        if k == "h":          # the back-reference group of raw strings is reported as lastgroup
            k = "rstr"
        out.append(m.group(0))
    return out

OPEN = {"(": ")", "[": "]", "{": "}"}
CLOSE = {")", "]", "}"}

def match_close(t, i):
    """t[i] is an opening bracket; index of its closing partner"""
    depth = 0
    for k in range(i, len(t)):
        if t[k] in OPEN:
            depth += 1
        elif t[k] in CLOSE:
            depth -= 1
            if depth == 0:
                return k
    raise ShapeError("unbalanced %s" % t[i])

def skip_turbofish(t, i):
    """t[i] == '::' and t[i+1] == '<': index just after the matching '>'"""
    depth, k = 0, i + 1
    while k < len(t):
        if t[k] == "<":
            depth += 1
        elif t[k] == ">":
            depth -= 1
            if depth == 0:
                return k + 1
        k += 1
    raise ShapeError("unbalanced turbofish")

def split_top(t, sep, angle=False):
    """splits the token list at the separators that are outside every bracket / turbofish
    (angle=True: also outside every <..>, for type contexts such as parameter lists)"""
    parts, cur, i = [], [], 0
    adepth = 0
    while i < len(t):
        x = t[i]
        if angle and x == "<":
            adepth += 1; cur.append(x); i += 1
        elif angle and x == ">" and adepth > 0:
            adepth -= 1; cur.append(x); i += 1
        elif angle and adepth > 0 and x not in OPEN:
            cur.append(x); i += 1
        elif x in OPEN:
            j = match_close(t, i)
            cur.extend(t[i:j + 1]); i = j + 1
        elif x == "::" and i + 1 < len(t) and t[i + 1] == "<":
            j = skip_turbofish(t, i)
            cur.extend(t[i:j]); i = j
        elif x == sep:
            parts.append(cur); cur = []; i += 1
        else:
            cur.append(x); i += 1
    parts.append(cur)
    return parts

def find_impl(t, trait, ty):
    """tokens of the body of `impl .. <trait>.. for <ty>.. { body }`"""
    for i, x in enumerate(t):
        if x != "impl":
            continue
        k = i + 1
        while k < len(t) and t[k] not in ("{", ";"):
            k += 1
        if k >= len(t) or t[k] != "{":
            continue
        hdr = t[i + 1:k]
        if "for" in hdr:
            f = hdr.index("for")
            if trait in hdr[:f] and ty in hdr[f + 1:f + 3]:
                return t[k + 1:match_close(t, k)]
        elif trait is None and ty in hdr:
            return t[k + 1:match_close(t, k)]
    raise ShapeError("impl %s for %s not found" % (trait, ty))

def functions(body):
    """{name: (param token lists, body tokens)} of the fns directly inside an impl body; also the
    macro invocations `path ! { .. }` found there as ("!path", tokens)"""
    fns, macros, i = {}, [], 0
    while i < len(body):
        x = body[i]
        if x == "fn" and i + 1 < len(body):
            name = body[i + 1]
            k = i + 2
            if body[k] == "<":
                depth = 0
                while True:
                    if body[k] == "<": depth += 1
                    elif body[k] == ">":
                        depth -= 1
                        if depth == 0: break
                    k += 1
                k += 1
            if body[k] != "(":
                raise ShapeError("fn %s: no parameter list" % name)
            pe = match_close(body, k)
            params = [p for p in split_top(body[k + 1:pe], ",", angle=True) if p]
            k = pe + 1
            while body[k] not in ("{", ";"):
                k += 1
            if body[k] == ";":
                i = k + 1
                continue
            be = match_close(body, k)
            if name in fns:
                raise ShapeError("fn %s defined twice" % name)
            fns[name] = (params, body[k + 1:be])
            i = be + 1
        elif x == "!" and i + 1 < len(body) and body[i + 1] in OPEN:
            j = i - 1
            path = []
            while j >= 0 and (re.match(r"[A-Za-z_]", body[j]) or body[j] == "::"):
                path.insert(0, body[j]); j -= 1
            e = match_close(body, i + 1)
            macros.append(("".join(path), body[i + 2:e]))
            i = e + 1
        elif x in OPEN:
            i = match_close(body, i) + 1
        else:
            i += 1
    return fns, macros

def split_arms(t):
    """tokens between the braces of a match -> [(pattern tokens, body tokens)]"""
    arms, i = [], 0
    while i < len(t):
        # pattern: up to '=>' outside brackets
        k, pat = i, []
        while k < len(t) and t[k] != "=>":
            if t[k] in OPEN:
                j = match_close(t, k)
                pat.extend(t[k:j + 1]); k = j + 1
            else:
                pat.append(t[k]); k += 1
        if k >= len(t):
            raise ShapeError("arm without => : %s" % " ".join(t[i:i + 12]))
        k += 1
        body = []
        if k < len(t) and t[k] == "{":
            j = match_close(t, k)
            if j + 1 >= len(t) or t[j + 1] == "," or t[j + 1] not in (".", "?", "as"):
                body = t[k:j + 1]
                k = j + 1
                if k < len(t) and t[k] == ",":
                    k += 1
                arms.append((pat, body)); i = k
                continue
        while k < len(t) and t[k] != ",":
            if t[k] in OPEN:
                j = match_close(t, k)
                body.extend(t[k:j + 1]); k = j + 1
            elif t[k] == "::" and k + 1 < len(t) and t[k + 1] == "<":
                j = skip_turbofish(t, k)
                body.extend(t[k:j]); k = j
            else:
                body.append(t[k]); k += 1
        k += 1
        arms.append((pat, body)); i = k
    return arms

IDENT = re.compile(r"^[A-Za-z_][A-Za-z0-9_]*$")
KEYWORDS = {"ref", "mut", "self", "Self", "let", "if", "else", "match", "as", "true", "false", "return",
            "move", "fn", "for", "in", "while", "loop", "break", "continue", "impl", "dyn", "where", "crate", "super"}

def _payload_binds(inner):
    """the names bound by the payload pattern of a variant -> {name: canonical token}; None = not understood.
    `_` / `..` / name / [name @] Type { field, field: name, field: _, .. }"""
    q = [x for x in inner if x not in ("ref", "mut")]
    if q in (["_"], [".."]):
        return {}
    if len(q) == 1 and IDENT.match(q[0]) and q[0] not in KEYWORDS:
        return {q[0]: "__b"}
    binds = {}
    if len(q) >= 3 and IDENT.match(q[0]) and q[1] == "@":
        binds[q[0]] = "__b"
        q = q[2:]
    if len(q) >= 3 and IDENT.match(q[0]) and q[1] == "{" and match_close(q, 1) == len(q) - 1:
        for f in split_top(q[2:-1], ","):
            if not f or f == [".."]:
                continue
            if len(f) == 1 and IDENT.match(f[0]):
                binds[f[0]] = "__f_" + f[0]
            elif len(f) == 3 and IDENT.match(f[0]) and f[1] == ":" and (IDENT.match(f[2])):
                if f[2] != "_":
                    binds[f[2]] = "__f_" + f[0]
            else:
                return None
        return binds
    return None

def parse_pattern(pat, enum_name="SchemaNode"):
    """-> (kinds, binds, guard tokens or None); kinds: list of variant names, '_' for the wildcard;
    binds: {source name: canonical token} (__n the whole node, __b the variant's payload, __f_<field> a field of it).
    Understands  [ref] [mut] name @ ( alt | alt .. ) ,  alt | alt ,  _ ,
    Enum::Variant ,  Enum::Variant(<payload>) with the payload patterns of _payload_binds, Enum::Variant{..} ,
    each followed by an optional `if guard`.  Anything else: ShapeError."""
    guard = None
    parts = split_top(pat, "if")
    if len(parts) > 1:
        pat = parts[0]
        guard = [x for p in parts[1:] for x in (["if"] + p)][1:]
    p = drop_trailing_commas(list(pat))
    binds = {}
    q = [x for x in p if x not in ("ref", "mut")]
    if len(q) >= 3 and IDENT.match(q[0]) and q[0] not in KEYWORDS and q[1] == "@":
        binds[q[0]] = "__n"
        p = p[p.index("@") + 1:]
        if p and p[0] == "(" and match_close(p, 0) == len(p) - 1:
            p = p[1:-1]
    kinds = []
    inner_binds = None
    for alt in split_top(p, "|"):
        if not alt:
            continue          # leading '|'
        if alt == ["_"]:
            kinds.append("_")
            continue
        if len(alt) >= 3 and alt[0] == enum_name and alt[1] == "::" and IDENT.match(alt[2]):
            rest = alt[3:]
            if not rest:
                kinds.append(alt[2]); continue
            if rest[0] == "{" and match_close(rest, 0) == len(rest) - 1 and rest[1:-1] == [".."]:
                kinds.append(alt[2]); continue
            if rest[0] == "(" and match_close(rest, 0) == len(rest) - 1:
                b = _payload_binds(rest[1:-1])
                if b is not None:
                    if b:
                        if binds or (inner_binds is not None and inner_binds != b):
                            raise ShapeError("pattern binds several names: " + " ".join(pat))
                        inner_binds = b
                    kinds.append(alt[2]); continue
        raise ShapeError("pattern not understood: " + " ".join(pat))
    if not kinds:
        raise ShapeError("empty pattern")
    if inner_binds:
        binds.update(inner_binds)
    return kinds, binds, guard

def drop_trailing_commas(t):
    return [x for i, x in enumerate(t) if not (x == "," and i + 1 < len(t) and t[i + 1] in CLOSE)]

def unwrap_closure_blocks(t):
    """| params | { expr }  ->  | params | expr   (rustfmt adds the braces when the closure spans lines)"""
    out, i = [], 0
    while i < len(t):
        if t[i] == "{" and out and out[-1] in ("|", "||"):
            j = match_close(t, i)
            inner = t[i + 1:j]
            if inner and len(split_top(inner, ";")) == 1 and inner[0] not in ("let", "return"):
                out.extend(unwrap_closure_blocks(inner))
                i = j + 1
                continue
        out.append(t[i]); i += 1
    return out

def unwrap_block(t):
    """{ expr } -> expr, when the block holds a single expression"""
    while t and t[0] == "{" and match_close(t, 0) == len(t) - 1 and len(split_top(t[1:-1], ";")) == 1:
        t = t[1:-1]
    return t

def subst(t, mapping):
    """replaces identifier tokens (not after '.' or '::', not before ':' in a struct literal field position
    unless shorthand) by token lists"""
    out = []
    for i, x in enumerate(t):
        if x in mapping:
            prev = t[i - 1] if i else None
            nxt = t[i + 1] if i + 1 < len(t) else None
            if prev in (".", "::") or nxt == "::":          # a field / method / path segment, not the variable
                out.append(x); continue
            if nxt == ":" and prev in ("{", ","):        # struct literal field name
                out.append(x); continue
            out.extend(mapping[x])
        else:
            out.append(x)
    return out

ALIAS_RHS = re.compile(r"^(?:& mut \* |& mut |& \* |& |\* )?(self \. [a-z_][A-Za-z0-9_]*)$")

def take_aliases(stmts):
    """leading `let [mut] name = [&mut *] self.<field>;` statements -> ({name: tokens}, remaining stmts)"""
    al = {}
    rest = list(stmts)
    while rest:
        s = rest[0]
        if len(s) >= 4 and s[0] == "let":
            k = 1
            if s[k] == "mut":
                k += 1
            if IDENT.match(s[k]) and s[k] not in KEYWORDS and s[k + 1] == "=":
                m = ALIAS_RHS.match(" ".join(s[k + 2:]))
                if m:
                    al[s[k]] = m.group(1).split(" ")
                    rest.pop(0)
                    continue
        break
    return al, rest

def rename_bound(t, prefix="__l"):
    """let-bound and closure-bound names -> __l0, __l1 .. / __c0 .. in binding order"""
    mapping = {}
    n = 0
    for i, x in enumerate(t):
        if x == "let":
            k = i + 1
            if k < len(t) and t[k] == "mut":
                k += 1
            if k < len(t) and IDENT.match(t[k]) and t[k] not in KEYWORDS and t[k] != "_" and t[k] not in mapping:
                mapping[t[k]] = ["%s%d" % (prefix, n)]; n += 1
    c = 0
    for i, x in enumerate(t):
        if x == "|" and i and t[i - 1] in ("(", ",", "=", "move"):
            k = i + 1
            while k < len(t) and t[k] != "|":
                if IDENT.match(t[k]) and t[k] not in KEYWORDS and t[k] != "_" and (k + 1 < len(t) and t[k + 1] in ("|", ",", ":")) and t[k - 1] in ("|", ",", "&", "mut"):
                    if t[k] not in mapping:
                        mapping[t[k]] = ["__c%d" % c]; c += 1
                k += 1
    out = subst(t, mapping)
    # `let mut x` where mut is harmless for classification: keep as written
    return out

def blank_strings(t):
    """string literals carry messages only: blanked (inline format captures would otherwise keep old names)"""
    return ['"_"' if (x.startswith('"') or x.startswith('b"') or x.startswith('r"') or x.startswith('r#')) else x for x in t]

def coq_string(s, limit=600):
    s = s if len(s) <= limit else s[:limit] + " ..."
    s = s.encode("ascii", "replace").decode()
    return '"' + s.replace('"', '""') + '"'
