//! avromiri -- replay binary for property C10 (memory safety of the
//! self-referential `Schema` and of the object container file `Reader`).
//!
//! Reads one history per stdin line, prints one result line per history and
//! flushes. See SPEC.txt. This crate contains no `unsafe`, no leaking and no
//! global state: whatever Miri reports belongs to serde_avro_fast.

#![forbid(unsafe_code)]

mod cat;
mod schema;
mod sexp;

use {
	cat::{fetch, Catalogue, Kept, Source, Val, N_CAT},
	serde::de::DeserializeOwned,
	serde_avro_fast::{
		de::{
			read::{ReaderRead, SliceRead},
			DeError, DeserializerConfig, DeserializerState,
		},
		object_container_file_encoding::{Compression, CompressionLevel, Reader, WriterBuilder},
		schema::{RegularType, SchemaMut, SchemaNode},
		ser::{SerializerConfig, SerializerState},
		Schema,
	},
	sexp::{hex, Sx},
	std::{
		cell::{Cell, RefCell},
		io::{BufRead, Cursor, Read, Write},
		panic::{catch_unwind, AssertUnwindSafe},
		sync::Arc,
	},
};

const N_SLOTS: usize = 16;
const SYNC_MARKER: [u8; 16] = *b"avromiri-sync-16";
const REJECTED: &str = "(rejected)";

// ------------------------------------------------------------------ history syntax

#[derive(Clone, Copy, Debug)]
enum Codec {
	Null,
	Deflate,
	Snappy,
}

#[derive(Clone, Copy, Debug)]
enum Corrupt {
	None,
	CutHeader,
	Trunc(usize),
	Flip(usize),
	/// xor 0xFF into byte B of the sync marker that ends block J
	FlipSync(usize, usize),
	/// cut the file B bytes into the sync marker that ends block J
	TruncSync(usize, usize),
	/// block J announces one object less than it holds (data left in the
	/// block when it is closed)
	LessCount(usize),
}

enum PreSpec {
	File {
		k: usize,
		codec: Codec,
		n: usize,
		per_block: usize,
		corrupt: Corrupt,
	},
	Datum {
		k: usize,
		i: usize,
	},
}

#[derive(Clone, Copy)]
enum MoveHow {
	Plain,
	Boxed,
	Vec,
}

#[derive(Clone, Copy)]
enum OpenMode {
	Slice,
	Cursor,
	BufRead,
	/// `std::io::BufReader` (7-byte buffer) over a `Cursor<Vec<u8>>`: owns heap
	StdBuf,
	/// a heap-free `BufRead` whose `Drop` counts
	Counted,
}

#[derive(Clone, Copy, PartialEq)]
enum ScopeKind {
	Ser,
	De,
}

enum Op {
	Build { d: usize, nodes: Vec<SchemaNode> },
	Parse { d: usize, k: usize },
	Freeze { s: usize, d: usize },
	Move { s: usize, d: usize, how: MoveHow },
	Arc { s: usize, d: usize },
	Clone { s: usize, d: usize },
	Drop { s: usize },
	Open { d: usize, f: usize, mode: OpenMode },
	Read { s: usize, borrowed: bool },
	Ser { s: usize, k: usize, i: usize },
	De { s: usize, j: usize, borrowed: bool },
	With { s: usize, kind: ScopeKind, body: Vec<Op> },
	CSer { k: usize, i: usize },
	CDe { j: usize, borrowed: bool },
	Threads { s: usize, n: usize, m: usize, k: usize },
	SymBorrow { s: usize },
	Info { s: usize },
	Debug { s: usize },
	DebugPar { s: usize },
	HDe { s: usize, target: HTarget, bytes: Vec<u8>, depth: usize },
}

/// what `hde` decodes into
#[derive(Clone, Copy, Debug)]
enum HTarget {
	OptIgnored,
	OptString,
	OptLong,
	OptUnit,
	Ignored,
}

struct History {
	id: String,
	pre: Vec<PreSpec>,
	ops: Vec<Op>,
}

fn args_n<'a>(what: &str, a: &'a [Sx], n: usize) -> Result<&'a [Sx], String> {
	if a.len() == n {
		Ok(a)
	} else {
		Err(format!("{what}: expected {n} argument(s), got {}", a.len()))
	}
}

fn slot(sx: &Sx) -> Result<usize, String> {
	let s: usize = sx.int()?;
	if s < N_SLOTS {
		Ok(s)
	} else {
		Err(format!("slot {s} out of range"))
	}
}

fn cat_id(sx: &Sx) -> Result<usize, String> {
	let k: usize = sx.int()?;
	if k < N_CAT {
		Ok(k)
	} else {
		Err(format!("no catalogue entry {k}"))
	}
}

fn index_below(sx: &Sx, n: usize, what: &str) -> Result<usize, String> {
	let j: usize = sx.int()?;
	if j < n {
		Ok(j)
	} else {
		Err(format!("{what} {j} not declared in pre section"))
	}
}

fn borrowed_how(sx: &Sx) -> Result<bool, String> {
	match sx.atom()? {
		"owned" => Ok(false),
		"borrowed" => Ok(true),
		other => Err(format!("expected owned|borrowed, got {other}")),
	}
}

fn parse_pre(sx: &Sx) -> Result<Vec<PreSpec>, String> {
	let (h, entries) = sx.head()?;
	if h != "pre" {
		return Err(format!("expected (pre ...), got {h}"));
	}
	let mut out = Vec::new();
	for e in entries {
		let (h, a) = e.head()?;
		out.push(match h {
			"file" => {
				let a = args_n("file", a, 5)?;
				let codec = match a[1].atom()? {
					"null" => Codec::Null,
					"deflate" => Codec::Deflate,
					"snappy" => Codec::Snappy,
					other => return Err(format!("unknown codec {other}")),
				};
				let corrupt = match a[4].head()? {
					("none", []) => Corrupt::None,
					("cut-header", []) => Corrupt::CutHeader,
					("trunc", [b]) => Corrupt::Trunc(b.int()?),
					("flip", [b]) => Corrupt::Flip(b.int()?),
					("flipsync", [j, b]) => Corrupt::FlipSync(j.int()?, b.int()?),
					("truncsync", [j, b]) => Corrupt::TruncSync(j.int()?, b.int()?),
					("lesscount", [j]) => Corrupt::LessCount(j.int()?),
					_ => return Err(format!("bad corruption {}", a[4])),
				};
				PreSpec::File {
					k: cat_id(&a[0])?,
					codec,
					n: a[2].int()?,
					per_block: a[3].int()?,
					corrupt,
				}
			}
			"datum" => {
				let a = args_n("datum", a, 2)?;
				PreSpec::Datum {
					k: cat_id(&a[0])?,
					i: a[1].int()?,
				}
			}
			other => return Err(format!("unknown pre entry {other}")),
		});
	}
	Ok(out)
}

/// Parses ops up to the end of `items` (top level) or up to the matching
/// `(end)` (nested), which is consumed.
fn parse_ops(
	items: &[Sx],
	pos: &mut usize,
	nested: bool,
	n_files: usize,
	n_datums: usize,
) -> Result<Vec<Op>, String> {
	let mut out = Vec::new();
	loop {
		let Some(item) = items.get(*pos) else {
			return if nested {
				Err("(with ..) without (end)".into())
			} else {
				Ok(out)
			};
		};
		*pos += 1;
		let (h, a) = item.head()?;
		out.push(match h {
			"end" => {
				args_n("end", a, 0)?;
				return if nested {
					Ok(out)
				} else {
					Err("(end) without (with ..)".into())
				};
			}
			"build" => {
				let a = args_n("build", a, 2)?;
				Op::Build {
					d: slot(&a[0])?,
					nodes: schema::nodes_from_sx(&a[1])?,
				}
			}
			"parse" => {
				let a = args_n("parse", a, 2)?;
				Op::Parse {
					d: slot(&a[0])?,
					k: cat_id(&a[1])?,
				}
			}
			"freeze" => {
				let a = args_n("freeze", a, 2)?;
				Op::Freeze {
					s: slot(&a[0])?,
					d: slot(&a[1])?,
				}
			}
			"move" => {
				let a = args_n("move", a, 3)?;
				Op::Move {
					s: slot(&a[0])?,
					d: slot(&a[1])?,
					how: match a[2].atom()? {
						"plain" => MoveHow::Plain,
						"box" => MoveHow::Boxed,
						"vec" => MoveHow::Vec,
						other => return Err(format!("expected plain|box|vec, got {other}")),
					},
				}
			}
			"arc" => {
				let a = args_n("arc", a, 2)?;
				Op::Arc {
					s: slot(&a[0])?,
					d: slot(&a[1])?,
				}
			}
			"clone" => {
				let a = args_n("clone", a, 2)?;
				Op::Clone {
					s: slot(&a[0])?,
					d: slot(&a[1])?,
				}
			}
			"drop" => {
				let a = args_n("drop", a, 1)?;
				Op::Drop { s: slot(&a[0])? }
			}
			"open" => {
				let a = args_n("open", a, 3)?;
				Op::Open {
					d: slot(&a[0])?,
					f: index_below(&a[1], n_files, "file")?,
					mode: match a[2].atom()? {
						"slice" => OpenMode::Slice,
						"cursor" => OpenMode::Cursor,
						"bufread" => OpenMode::BufRead,
						"stdbuf" => OpenMode::StdBuf,
						"counted" => OpenMode::Counted,
						other => {
							return Err(format!("expected slice|cursor|bufread|stdbuf|counted, got {other}"))
						}
					},
				}
			}
			"read" => {
				let a = args_n("read", a, 2)?;
				Op::Read {
					s: slot(&a[0])?,
					borrowed: borrowed_how(&a[1])?,
				}
			}
			"ser" => {
				let a = args_n("ser", a, 3)?;
				Op::Ser {
					s: slot(&a[0])?,
					k: cat_id(&a[1])?,
					i: a[2].int()?,
				}
			}
			"de" => {
				let a = args_n("de", a, 3)?;
				Op::De {
					s: slot(&a[0])?,
					j: index_below(&a[1], n_datums, "datum")?,
					borrowed: borrowed_how(&a[2])?,
				}
			}
			"with" => {
				let a = args_n("with", a, 2)?;
				let s = slot(&a[0])?;
				let kind = match a[1].atom()? {
					"ser" => ScopeKind::Ser,
					"de" => ScopeKind::De,
					other => return Err(format!("expected ser|de, got {other}")),
				};
				Op::With {
					s,
					kind,
					body: parse_ops(items, pos, true, n_files, n_datums)?,
				}
			}
			"cser" => {
				let a = args_n("cser", a, 2)?;
				Op::CSer {
					k: cat_id(&a[0])?,
					i: a[1].int()?,
				}
			}
			"cde" => {
				let a = args_n("cde", a, 2)?;
				Op::CDe {
					j: index_below(&a[0], n_datums, "datum")?,
					borrowed: borrowed_how(&a[1])?,
				}
			}
			"threads" => {
				let a = args_n("threads", a, 4)?;
				Op::Threads {
					s: slot(&a[0])?,
					n: a[1].int()?,
					m: a[2].int()?,
					k: cat_id(&a[3])?,
				}
			}
			"symborrow" => {
				let a = args_n("symborrow", a, 1)?;
				Op::SymBorrow { s: slot(&a[0])? }
			}
			"info" => {
				let a = args_n("info", a, 1)?;
				Op::Info { s: slot(&a[0])? }
			}
			"debug" => {
				let a = args_n("debug", a, 1)?;
				Op::Debug { s: slot(&a[0])? }
			}
			"debugpar" => {
				let a = args_n("debugpar", a, 1)?;
				Op::DebugPar { s: slot(&a[0])? }
			}
			"hde" => {
				let a = args_n("hde", a, 4)?;
				let target = match a[1].atom()? {
					"optignored" => HTarget::OptIgnored,
					"optstring" => HTarget::OptString,
					"optlong" => HTarget::OptLong,
					"optunit" => HTarget::OptUnit,
					"ignored" => HTarget::Ignored,
					other => return Err(format!("hde: unknown target {other}")),
				};
				Op::HDe { s: slot(&a[0])?, target, bytes: a[2].bytes()?, depth: a[3].int::<usize>()? }
			}
			other => return Err(format!("unknown op {other}")),
		});
	}
}

fn parse_history(line: &str) -> Result<History, String> {
	let items = Sx::parse_many(line)?;
	if items.len() < 3 {
		return Err("expected: hist ID (pre ...) OP...".into());
	}
	if items[0].atom()? != "hist" {
		return Err("line does not start with hist".into());
	}
	let id = items[1].atom()?.to_owned();
	let pre = parse_pre(&items[2])?;
	let n_files = pre
		.iter()
		.filter(|p| matches!(p, PreSpec::File { .. }))
		.count();
	let n_datums = pre.len() - n_files;
	let mut pos = 3;
	let ops = parse_ops(&items, &mut pos, false, n_files, n_datums)?;
	Ok(History { id, pre, ops })
}

// ------------------------------------------------------------------ pre section

struct FileEntry {
	k: usize,
	bytes: Vec<u8>,
}

struct DatumEntry {
	k: usize,
	i: usize,
	bytes: Vec<u8>,
}

struct Pre {
	files: Vec<FileEntry>,
	datums: Vec<DatumEntry>,
}

fn build_file(
	cat: &Catalogue,
	k: usize,
	codec: Codec,
	n: usize,
	per_block: usize,
	corrupt: Corrupt,
) -> Result<Vec<u8>, String> {
	let mut config = SerializerConfig::new(cat.schema(k));
	let mut writer = WriterBuilder::new(&mut config)
		.compression(match codec {
			Codec::Null => Compression::Null,
			Codec::Deflate => Compression::Deflate {
				level: CompressionLevel::new(1),
			},
			Codec::Snappy => Compression::Snappy,
		})
		.sync_marker(SYNC_MARKER)
		.build(Vec::new())
		.map_err(|e| format!("writing file header: {e}"))?;
	// The header is completely written by `build`: this is the length of the
	// same file written with N = 0
	let header_len = writer.inner().len();
	// where each block (count, size, data, 16-byte sync marker) ends
	let mut block_ends: Vec<usize> = Vec::new();
	for i in 0..n {
		match cat::val(k, i) {
			Val::R0(v) => writer.serialize(&v),
			Val::N1(v) => writer.serialize(&v),
			Val::M2(v) => writer.serialize(&v),
		}
		.map_err(|e| format!("writing val({k},{i}): {e}"))?;
		if per_block != 0 && (i + 1) % per_block == 0 {
			writer
				.finish_block()
				.map_err(|e| format!("flushing block: {e}"))?;
			let end = writer.inner().len();
			if block_ends.last().copied().unwrap_or(header_len) < end {
				block_ends.push(end);
			}
		}
	}
	let mut bytes = writer
		.into_inner()
		.map_err(|e| format!("finishing file: {e}"))?;
	if block_ends.last().copied().unwrap_or(header_len) < bytes.len() {
		block_ends.push(bytes.len());
	}
	let block_end = |j: usize| -> Result<usize, String> {
		block_ends
			.get(j)
			.copied()
			.ok_or_else(|| format!("no block {j} in a file of {} blocks", block_ends.len()))
	};
	match corrupt {
		Corrupt::None => {}
		Corrupt::CutHeader => bytes.truncate(header_len - 5),
		Corrupt::Trunc(b) => {
			let len = bytes.len().saturating_sub(b);
			bytes.truncate(len)
		}
		Corrupt::Flip(b) => {
			let len = bytes.len();
			if b >= len {
				return Err(format!("flip {b} outside of the {len} byte file"));
			}
			bytes[len - 1 - b] ^= 0xFF;
		}
		Corrupt::FlipSync(j, b) => {
			if b >= 16 {
				return Err(format!("flipsync: byte {b} outside of the 16 byte marker"));
			}
			let end = block_end(j)?;
			bytes[end - 16 + b] ^= 0xFF;
		}
		Corrupt::TruncSync(j, b) => {
			if b >= 16 {
				return Err(format!("truncsync: byte {b} outside of the 16 byte marker"));
			}
			let end = block_end(j)?;
			bytes.truncate(end - 16 + b);
		}
		Corrupt::LessCount(j) => {
			let _ = block_end(j)?;
			let start = if j == 0 { header_len } else { block_end(j - 1)? };
			// zigzag varint of a count in 2..=63: one byte
			let c = bytes[start];
			if c & 0x81 != 0 || c < 4 {
				return Err(format!("lesscount: block {j} has no one-byte count >= 2 ({c:#x})"));
			}
			bytes[start] = c - 2;
		}
	}
	Ok(bytes)
}

fn build_pre(cat: &Catalogue, specs: &[PreSpec]) -> Result<Pre, String> {
	let mut pre = Pre {
		files: Vec::new(),
		datums: Vec::new(),
	};
	for spec in specs {
		match *spec {
			PreSpec::File {
				k,
				codec,
				n,
				per_block,
				corrupt,
			} => pre.files.push(FileEntry {
				k,
				bytes: build_file(cat, k, codec, n, per_block, corrupt)?,
			}),
			PreSpec::Datum { k, i } => pre.datums.push(DatumEntry {
				k,
				i,
				bytes: cat.reference_bytes(k, i),
			}),
		}
	}
	Ok(pre)
}

// ------------------------------------------------------------------ objects

/// A container reader, the catalogue id of the file it was opened on, and
/// the number of values successfully read so far
struct Rd<T> {
	reader: T,
	k: usize,
	pos: usize,
}

type SliceReader<'f> = Reader<SliceRead<'f>>;
type CursorReader = Reader<ReaderRead<Cursor<Vec<u8>>>>;
type BufReader<'f> = Reader<ReaderRead<&'f [u8]>>;
type StdBufReader = Reader<ReaderRead<std::io::BufReader<Cursor<Vec<u8>>>>>;
type CountedReader<'f> = Reader<ReaderRead<CountedRead<'f>>>;

/// A `BufRead` over a borrowed slice that owns nothing on the heap and
/// counts its drops in a cell that outlives every object of the history: the
/// reader that it is given to must drop it exactly once.
struct CountedRead<'f> {
	data: &'f [u8],
	drops: &'f Cell<u32>,
}
impl Drop for CountedRead<'_> {
	fn drop(&mut self) {
		self.drops.set(self.drops.get() + 1);
	}
}
impl Read for CountedRead<'_> {
	fn read(&mut self, buf: &mut [u8]) -> std::io::Result<usize> {
		self.data.read(buf)
	}
}
impl BufRead for CountedRead<'_> {
	fn fill_buf(&mut self) -> std::io::Result<&[u8]> {
		Ok(self.data)
	}
	fn consume(&mut self, amt: usize) {
		self.data = &self.data[amt..];
	}
}

/// `'f` is the lifetime of the pre section
enum Obj<'f> {
	Mut(SchemaMut),
	Schema(Schema),
	Arc(Arc<Schema>),
	SliceReader(Rd<SliceReader<'f>>),
	CursorReader(Rd<CursorReader>),
	BufReader(Rd<BufReader<'f>>),
	StdBufReader(Rd<StdBufReader>),
	CountedReader(Rd<CountedReader<'f>>),
}

impl Obj<'_> {
	/// The frozen schema this object is or holds, if any
	fn schema(&self) -> Option<&Schema> {
		match self {
			Obj::Mut(_) => None,
			Obj::Schema(s) => Some(s),
			Obj::Arc(a) => Some(a),
			Obj::SliceReader(r) => Some(r.reader.schema()),
			Obj::CursorReader(r) => Some(r.reader.schema()),
			Obj::BufReader(r) => Some(r.reader.schema()),
			Obj::StdBufReader(r) => Some(r.reader.schema()),
			Obj::CountedReader(r) => Some(r.reader.schema()),
		}
	}
}

type Slots<'f> = [RefCell<Option<Obj<'f>>>];

// ------------------------------------------------------------------ sources

struct SliceReaderSrc<'r, 'f>(&'r mut SliceReader<'f>);
impl<'f> Source<'f> for SliceReaderSrc<'_, 'f> {
	const CAN_BORROW: bool = true;
	fn owned<T: DeserializeOwned>(&mut self) -> Result<Option<T>, DeError> {
		self.0.deserialize_next::<T>()
	}
	fn borrowed<T: serde::Deserialize<'f>>(&mut self) -> Result<Option<T>, DeError> {
		self.0.deserialize_next_borrowed::<T>()
	}
}

struct IoReaderSrc<'r, R: BufRead>(&'r mut Reader<ReaderRead<R>>);
impl<'de, R: BufRead> Source<'de> for IoReaderSrc<'_, R> {
	const CAN_BORROW: bool = false;
	fn owned<T: DeserializeOwned>(&mut self) -> Result<Option<T>, DeError> {
		self.0.deserialize_next::<T>()
	}
	fn borrowed<T: serde::Deserialize<'de>>(&mut self) -> Result<Option<T>, DeError> {
		Err(serde::de::Error::custom("not a slice reader"))
	}
}

/// `from_datum_slice`
struct DatumSrc<'a, 's> {
	slice: &'a [u8],
	schema: &'s Schema,
}
impl<'a> Source<'a> for DatumSrc<'a, '_> {
	const CAN_BORROW: bool = true;
	fn owned<T: DeserializeOwned>(&mut self) -> Result<Option<T>, DeError> {
		serde_avro_fast::from_datum_slice::<T>(self.slice, self.schema).map(Some)
	}
	fn borrowed<T: serde::Deserialize<'a>>(&mut self) -> Result<Option<T>, DeError> {
		serde_avro_fast::from_datum_slice::<T>(self.slice, self.schema).map(Some)
	}
}

/// Through the `DeserializerConfig` of a `with` scope
struct ConfigSrc<'a, 'c, 's> {
	slice: &'a [u8],
	config: &'c DeserializerConfig<'s>,
}
impl<'a> ConfigSrc<'a, '_, '_> {
	fn get<T: serde::Deserialize<'a>>(&mut self) -> Result<Option<T>, DeError> {
		let mut state =
			DeserializerState::with_config(SliceRead::new(self.slice), self.config.clone());
		T::deserialize(state.deserializer()).map(Some)
	}
}
impl<'a> Source<'a> for ConfigSrc<'a, '_, '_> {
	const CAN_BORROW: bool = true;
	fn owned<T: DeserializeOwned>(&mut self) -> Result<Option<T>, DeError> {
		self.get::<T>()
	}
	fn borrowed<T: serde::Deserialize<'a>>(&mut self) -> Result<Option<T>, DeError> {
		self.get::<T>()
	}
}

// ------------------------------------------------------------------ interpreter

enum Scope<'c, 's> {
	None,
	Ser(&'c mut SerializerConfig<'s>),
	De(&'c DeserializerConfig<'s>),
}

struct Interp<'f, 'e> {
	cat: &'e Catalogue,
	pre: &'f Pre,
	slots: &'e Slots<'f>,
	/// Drop counters handed to the `counted` readers, in the order of their `open` ops
	counters: &'f [Cell<u32>],
	n_counted: &'e Cell<usize>,
	/// Per-op timing on stderr
	trace: bool,
}

/// One thread's share of a `threads` op
#[derive(PartialEq)]
struct Share {
	round_trips: Vec<Result<(Vec<u8>, Val), String>>,
	schema_info: Option<(usize, [u8; 8])>,
	/// `{:?}` of the schema and the message of a serialization that fails (it renders a schema node)
	renderings: Vec<String>,
}

/// `{:?}` of the schema
fn render_debug(schema: &Schema) -> String {
	format!("{schema:?}")
}

/// Message of a serialization that cannot succeed under any catalogue schema (a unit struct for a record / map root): the
/// message renders the schema node it could not serialize to
fn render_ser_error(schema: &Schema) -> String {
	#[derive(serde_derive::Serialize)]
	struct Mismatch;
	match serde_avro_fast::to_datum_vec(&Mismatch, &mut SerializerConfig::new(schema)) {
		Ok(b) => format!("ok {}", b.len()),
		Err(e) => e.to_string(),
	}
}

/// fmt::Write sink that, at its FIRST write, tells the other side it has been entered and waits for the go
struct GateSink {
	out: String,
	gate: Option<(std::sync::mpsc::Sender<()>, std::sync::mpsc::Receiver<()>)>,
}
impl std::fmt::Write for GateSink {
	fn write_str(&mut self, s: &str) -> std::fmt::Result {
		if let Some((entered, go)) = self.gate.take() {
			let _ = entered.send(());
			let _ = go.recv();
		}
		self.out.push_str(s);
		Ok(())
	}
}

fn share_of(schema: &Schema, k: usize, t: usize, m: usize) -> Share {
	let mut round_trips = Vec::with_capacity(m);
	for j in 0..m {
		let mut config = SerializerConfig::new(schema);
		let v = cat::val(k, t * m + j);
		round_trips.push(match v.to_datum(&mut config) {
			Err(e) => Err(format!("ser: {e}")),
			Ok(bytes) => {
				let back = fetch(
					&mut DatumSrc {
						slice: &bytes,
						schema,
					},
					k,
					false,
				);
				match back {
					Ok(Some(Kept::Owned(v))) => Ok((bytes, v)),
					Ok(_) => Err("de: no owned value".to_owned()),
					Err(e) => Err(format!("de: {e}")),
				}
			}
		});
	}
	Share {
		round_trips,
		schema_info: (t % 2 == 1).then(|| (schema.json().len(), *schema.rabin_fingerprint())),
		renderings: (0..m.max(1))
			.map(|j| if (t + j) % 2 == 0 { render_debug(schema) } else { render_ser_error(schema) })
			.collect(),
	}
}

impl<'f> Interp<'f, '_> {
	// -------- slot helpers (never panic: a RefCell conflict is a rejection)

	fn dest_free(&self, d: usize) -> bool {
		self.slots[d]
			.try_borrow_mut()
			.map(|g| g.is_none())
			.unwrap_or(false)
	}

	/// Takes the object out of `s` if it is there, satisfies `pred` and is
	/// not borrowed
	fn take_if(&self, s: usize, pred: impl FnOnce(&Obj<'f>) -> bool) -> Option<Obj<'f>> {
		let mut g = self.slots[s].try_borrow_mut().ok()?;
		if pred(g.as_ref()?) {
			g.take()
		} else {
			None
		}
	}

	/// Only called after `dest_free(d)` (or after `d` itself was vacated)
	fn put(&self, d: usize, obj: Obj<'f>) {
		let mut g = self.slots[d]
			.try_borrow_mut()
			.expect("destination slot was checked to be free");
		assert!(g.is_none(), "destination slot was checked to be free");
		*g = Some(obj);
	}

	/// `take S`, transform, `put D`; rejected ops leave everything unchanged.
	/// `D == S` is fine: the slot is vacated before it is filled.
	fn transfer(
		&self,
		s: usize,
		d: usize,
		pred: impl FnOnce(&Obj<'f>) -> bool,
		f: impl FnOnce(Obj<'f>) -> Result<Obj<'f>, ()>,
	) -> String {
		if s != d && !self.dest_free(d) {
			return REJECTED.into();
		}
		let Some(obj) = self.take_if(s, pred) else {
			return REJECTED.into();
		};
		match f(obj) {
			Ok(obj) => {
				self.put(d, obj);
				"ok".into()
			}
			Err(()) => "err".into(),
		}
	}

	/// Runs `f` on the frozen schema of slot `s`, holding a shared borrow
	fn with_schema(&self, s: usize, f: impl FnOnce(&Schema) -> String) -> String {
		let Ok(guard) = self.slots[s].try_borrow() else {
			return REJECTED.into();
		};
		match guard.as_ref().and_then(Obj::schema) {
			Some(schema) => f(schema),
			None => REJECTED.into(),
		}
	}

	// -------- result tokens

	fn ser_token(&self, k: usize, i: usize, res: Result<Vec<u8>, impl std::fmt::Display>) -> String {
		match res {
			Err(e) => {
				eprintln!("  ser val({k},{i}): {e}");
				"err".into()
			}
			Ok(bytes) if bytes == self.cat.reference_bytes(k, i) => "(ok eq)".into(),
			Ok(bytes) => format!("(ok {})", hex(&bytes)),
		}
	}

	fn de_token(
		&self,
		j: usize,
		res: Result<Option<Kept<'f>>, DeError>,
		kept: &mut Vec<Kept<'f>>,
	) -> String {
		let datum = &self.pre.datums[j];
		match res {
			Err(e) => {
				eprintln!("  de datum {j}: {e}");
				"err".into()
			}
			Ok(None) => "err".into(),
			Ok(Some(v)) => {
				let eq = v.is_val(datum.k, datum.i);
				kept.push(v);
				if eq { "(ok eq)" } else { "(ok diff)" }.into()
			}
		}
	}

	fn read_token<S: Source<'f>>(
		mut src: S,
		k: usize,
		pos: &mut usize,
		borrowed: bool,
		kept: &mut Vec<Kept<'f>>,
	) -> String {
		match fetch(&mut src, k, borrowed) {
			Err(e) => {
				eprintln!("  read: {e}");
				"err".into()
			}
			Ok(None) => "none".into(),
			Ok(Some(v)) => {
				let i = *pos;
				*pos += 1;
				let eq = v.is_val(k, i);
				kept.push(v);
				format!("(some {i} {})", if eq { "eq" } else { "diff" })
			}
		}
	}

	// -------- ops

	fn run(
		&self,
		ops: &[Op],
		scope: &mut Scope<'_, '_>,
		kept: &mut Vec<Kept<'f>>,
		out: &mut Vec<String>,
	) {
		for op in ops {
			if let Op::With { s, kind, body } = op {
				self.run_with(*s, *kind, body, kept, out);
			} else {
				let started = self.trace.then(std::time::Instant::now);
				let token = self.step(op, scope, kept);
				if let Some(started) = started {
					eprintln!("  op {} -> {token} [{} ms]", out.len(), started.elapsed().as_millis());
				}
				out.push(token);
			}
		}
	}

	fn run_with(
		&self,
		s: usize,
		kind: ScopeKind,
		body: &[Op],
		kept: &mut Vec<Kept<'f>>,
		out: &mut Vec<String>,
	) {
		// The guard lives on this stack frame for the whole scope
		let guard = self.slots[s].try_borrow().ok();
		let schema = guard.as_ref().and_then(|g| g.as_ref()).and_then(Obj::schema);
		match schema {
			None => {
				// Not a schema (or mutably borrowed): the body still runs, but
				// without any config
				drop(guard);
				out.push(REJECTED.into());
				self.run(body, &mut Scope::None, kept, out);
			}
			Some(schema) => {
				out.push("ok".into());
				match kind {
					ScopeKind::Ser => {
						let mut config = SerializerConfig::new(schema);
						self.run(body, &mut Scope::Ser(&mut config), kept, out);
					}
					ScopeKind::De => {
						let config = DeserializerConfig::new(schema);
						self.run(body, &mut Scope::De(&config), kept, out);
					}
				}
			}
		}
		out.push("ok".into()); // (end)
	}

	fn step(&self, op: &Op, scope: &mut Scope<'_, '_>, kept: &mut Vec<Kept<'f>>) -> String {
		match *op {
			Op::With { .. } => unreachable!("handled by run"),
			Op::Build { d, ref nodes } => {
				if !self.dest_free(d) {
					return REJECTED.into();
				}
				self.put(d, Obj::Mut(schema::schema_from_nodes(nodes.clone())));
				"ok".into()
			}
			Op::Parse { d, k } => {
				if !self.dest_free(d) {
					return REJECTED.into();
				}
				match cat::JSON[k].parse::<Schema>() {
					Ok(schema) => {
						self.put(d, Obj::Schema(schema));
						"ok".into()
					}
					Err(e) => {
						eprintln!("  parse {k}: {e}");
						"err".into()
					}
				}
			}
			Op::Freeze { s, d } => self.transfer(
				s,
				d,
				|o| matches!(o, Obj::Mut(_)),
				|o| match o {
					Obj::Mut(m) => m.freeze().map(Obj::Schema).map_err(|e| {
						eprintln!("  freeze: {e}");
					}),
					_ => unreachable!(),
				},
			),
			Op::Move { s, d, how } => self.transfer(
				s,
				d,
				|_| true,
				|o| {
					Ok(match how {
						MoveHow::Plain => o,
						MoveHow::Boxed => {
							let b = Box::new(o);
							*b
						}
						MoveHow::Vec => {
							// capacity 1: the pushes below reallocate (twice)
							let mut v: Vec<Obj<'f>> = Vec::with_capacity(1);
							v.push(o);
							for _ in 0..3 {
								v.push(Obj::Mut(SchemaMut::from_nodes(vec![SchemaNode::new(
									RegularType::Null,
								)])));
							}
							v.swap_remove(0)
						}
					})
				},
			),
			Op::Arc { s, d } => self.transfer(
				s,
				d,
				|o| matches!(o, Obj::Schema(_)),
				|o| match o {
					Obj::Schema(schema) => Ok(Obj::Arc(Arc::new(schema))),
					_ => unreachable!(),
				},
			),
			Op::Clone { s, d } => {
				let Ok(guard) = self.slots[s].try_borrow() else {
					return REJECTED.into();
				};
				let arc = match guard.as_ref() {
					Some(Obj::Arc(a)) => Arc::clone(a),
					Some(Obj::SliceReader(r)) => r.reader.schema().clone(),
					Some(Obj::CursorReader(r)) => r.reader.schema().clone(),
					Some(Obj::BufReader(r)) => r.reader.schema().clone(),
					Some(Obj::StdBufReader(r)) => r.reader.schema().clone(),
					Some(Obj::CountedReader(r)) => r.reader.schema().clone(),
					_ => return REJECTED.into(),
				};
				// (s == d is rejected here: s is borrowed and occupied)
				if !self.dest_free(d) {
					return REJECTED.into();
				}
				self.put(d, Obj::Arc(arc));
				"ok".into()
			}
			Op::Drop { s } => match self.take_if(s, |_| true) {
				Some(obj) => {
					drop(obj);
					"ok".into()
				}
				None => REJECTED.into(),
			},
			Op::Open { d, f, mode } => {
				if !self.dest_free(d) {
					return REJECTED.into();
				}
				let file: &'f FileEntry = &self.pre.files[f];
				let (k, pos) = (file.k, 0);
				let res = match mode {
					OpenMode::Slice => Reader::from_slice(&file.bytes)
						.map(|reader| Obj::SliceReader(Rd { reader, k, pos })),
					OpenMode::Cursor => Reader::from_reader(Cursor::new(file.bytes.clone()))
						.map(|reader| Obj::CursorReader(Rd { reader, k, pos })),
					OpenMode::BufRead => Reader::from_reader(&file.bytes[..])
						.map(|reader| Obj::BufReader(Rd { reader, k, pos })),
					OpenMode::StdBuf => Reader::from_reader(std::io::BufReader::with_capacity(
						7,
						Cursor::new(file.bytes.clone()),
					))
					.map(|reader| Obj::StdBufReader(Rd { reader, k, pos })),
					OpenMode::Counted => {
						let idx = self.n_counted.get();
						if idx >= self.counters.len() {
							return REJECTED.into();
						}
						self.n_counted.set(idx + 1);
						Reader::from_reader(CountedRead {
							data: &file.bytes,
							drops: &self.counters[idx],
						})
						.map(|reader| Obj::CountedReader(Rd { reader, k, pos }))
					}
				};
				match res {
					Ok(obj) => {
						self.put(d, obj);
						"ok".into()
					}
					Err(e) => {
						eprintln!("  open {f}: {e}");
						"err".into()
					}
				}
			}
			Op::Read { s, borrowed } => {
				let Ok(mut guard) = self.slots[s].try_borrow_mut() else {
					return REJECTED.into();
				};
				match guard.as_mut() {
					Some(Obj::SliceReader(r)) => Self::read_token(
						SliceReaderSrc(&mut r.reader),
						r.k,
						&mut r.pos,
						borrowed,
						kept,
					),
					Some(Obj::CursorReader(r)) => Self::read_token(
						IoReaderSrc(&mut r.reader),
						r.k,
						&mut r.pos,
						borrowed,
						kept,
					),
					Some(Obj::BufReader(r)) => Self::read_token(
						IoReaderSrc(&mut r.reader),
						r.k,
						&mut r.pos,
						borrowed,
						kept,
					),
					Some(Obj::StdBufReader(r)) => Self::read_token(
						IoReaderSrc(&mut r.reader),
						r.k,
						&mut r.pos,
						borrowed,
						kept,
					),
					Some(Obj::CountedReader(r)) => Self::read_token(
						IoReaderSrc(&mut r.reader),
						r.k,
						&mut r.pos,
						borrowed,
						kept,
					),
					_ => REJECTED.into(),
				}
			}
			Op::Ser { s, k, i } => self.with_schema(s, |schema| {
				let res = cat::val(k, i).to_datum(&mut SerializerConfig::new(schema));
				self.ser_token(k, i, res)
			}),
			Op::De { s, j, borrowed } => self.with_schema(s, |schema| {
				let datum: &'f DatumEntry = &self.pre.datums[j];
				let res = fetch(
					&mut DatumSrc {
						slice: &datum.bytes,
						schema,
					},
					datum.k,
					borrowed,
				);
				self.de_token(j, res, kept)
			}),
			Op::CSer { k, i } => match scope {
				Scope::Ser(config) => {
					let v = cat::val(k, i);
					let mut state = SerializerState::from_writer(Vec::new(), config);
					let res = match &v {
						Val::R0(v) => serde::Serialize::serialize(v, state.serializer()),
						Val::N1(v) => serde::Serialize::serialize(v, state.serializer()),
						Val::M2(v) => serde::Serialize::serialize(v, state.serializer()),
					};
					self.ser_token(k, i, res.map(|()| state.into_writer()))
				}
				_ => REJECTED.into(),
			},
			Op::CDe { j, borrowed } => match scope {
				Scope::De(config) => {
					let datum: &'f DatumEntry = &self.pre.datums[j];
					let res = fetch(
						&mut ConfigSrc {
							slice: &datum.bytes,
							config,
						},
						datum.k,
						borrowed,
					);
					self.de_token(j, res, kept)
				}
				_ => REJECTED.into(),
			},
			Op::Threads { s, n, m, k } => self.with_schema(s, |schema| {
				let concurrent: Option<Vec<Share>> = std::thread::scope(|scope| {
					let handles: Vec<_> = (0..n)
						.map(|t| scope.spawn(move || share_of(schema, k, t, m)))
						.collect();
					handles.into_iter().map(|h| h.join().ok()).collect()
				});
				let Some(concurrent) = concurrent else {
					return "err".into();
				};
				let sequential: Vec<Share> = (0..n).map(|t| share_of(schema, k, t, m)).collect();
				if concurrent != sequential {
					return "(ok DIFFERENT)".into();
				}
				let mut cnt = 0;
				for (t, share) in concurrent.iter().enumerate() {
					for (j, rt) in share.round_trips.iter().enumerate() {
						match rt {
							Ok((_, v)) if *v == cat::val(k, t * m + j) => cnt += 1,
							Ok(_) => eprintln!("  threads: val({k},{}) came back different", t * m + j),
							Err(e) => eprintln!("  threads: val({k},{}): {e}", t * m + j),
						}
					}
				}
				format!("(ok equal {cnt})")
			}),
			Op::SymBorrow { s } => self.with_schema(s, |schema| {
				let bytes = match cat::val(0, 1).to_datum(&mut SerializerConfig::new(schema)) {
					Ok(bytes) => bytes,
					Err(e) => {
						eprintln!("  symborrow: {e}");
						return "err".into();
					}
				};
				let sym = serde_avro_fast::from_datum_slice::<cat::R0SymBorrow<'_>>(&bytes, schema);
				let fields = serde_avro_fast::from_datum_slice::<
					std::collections::BTreeMap<&str, serde::de::IgnoredAny>,
				>(&bytes, schema);
				let token = format!(
					"(symborrow {} {})",
					if sym.is_ok() { "ok" } else { "err" },
					if fields.is_ok() { "ok" } else { "err" }
				);
				// Anything that did deserialize is looked at while the schema is
				// still borrowed
				if let Ok(v) = &sym {
					eprintln!("  symborrow: symbol borrowed: {v:?}");
				}
				if let Ok(v) = &fields {
					eprintln!("  symborrow: fields borrowed: {:?}", v.keys().collect::<Vec<_>>());
				}
				token
			}),
			Op::Info { s } => self.with_schema(s, |schema| {
				format!(
					"(info {} {})",
					schema.json().len(),
					hex(schema.rabin_fingerprint())
				)
			}),
			// `{:?}` of the frozen schema (cyclic or not): terminates, bounded output, the same text every time
			Op::Debug { s } => self.with_schema(s, |schema| {
				let a = render_debug(schema);
				let b = render_debug(schema);
				let e = render_ser_error(schema);
				if a != b {
					return "(debug UNSTABLE)".into();
				}
				format!("(debug {} {} x{:016x})", a.len(), e.len(), fnv1a64(a.as_bytes()) ^ fnv1a64(e.as_bytes()))
			}),
			// arbitrary (hostile) datum bytes decoded under the slot's schema into Option<_> / IgnoredAny with a depth budget:
			// Ok or a clean Err, never a fault
			Op::HDe { s, target, ref bytes, depth } => self.with_schema(s, |schema| {
				use serde::Deserialize;
				let mut cfg = DeserializerConfig::new(schema);
				cfg.allowed_depth = depth;
				let mut st = DeserializerState::with_config(SliceRead::new(bytes), cfg);
				let r: Result<&'static str, DeError> = match target {
					HTarget::OptIgnored => Option::<serde::de::IgnoredAny>::deserialize(st.deserializer()).map(|o| if o.is_some() { "some" } else { "none" }),
					HTarget::OptString => Option::<String>::deserialize(st.deserializer()).map(|o| if o.is_some() { "some" } else { "none" }),
					HTarget::OptLong => Option::<i64>::deserialize(st.deserializer()).map(|o| if o.is_some() { "some" } else { "none" }),
					HTarget::OptUnit => Option::<()>::deserialize(st.deserializer()).map(|o| if o.is_some() { "some" } else { "none" }),
					HTarget::Ignored => serde::de::IgnoredAny::deserialize(st.deserializer()).map(|_| "ok"),
				};
				match r {
					Ok(t) => format!("(hde {t})"),
					Err(e) => {
						eprintln!("  hde: {e}");
						"(hde err)".into()
					}
				}
			}),
			// one thread is INSIDE a rendering of the schema (parked in its sink at the first write) while this thread renders the
			// schema and produces a serialization error message: every text must be the one sequential use gives
			Op::DebugPar { s } => self.with_schema(s, |schema| {
				let seq_debug = render_debug(schema);
				let seq_err = render_ser_error(schema);
				let (entered_tx, entered_rx) = std::sync::mpsc::channel::<()>();
				let (go_tx, go_rx) = std::sync::mpsc::channel::<()>();
				let (parked, mid_debug, mid_err) = std::thread::scope(|scope| {
					let h = scope.spawn(move || {
						let mut sink = GateSink {
							out: String::new(),
							gate: Some((entered_tx, go_rx)),
						};
						let _ = std::fmt::Write::write_fmt(&mut sink, format_args!("{schema:?}"));
						sink.out
					});
					let _ = entered_rx.recv();
					let mid_debug = render_debug(schema);
					let mid_err = render_ser_error(schema);
					let _ = go_tx.send(());
					(h.join().ok(), mid_debug, mid_err)
				});
				let after_debug = render_debug(schema);
				if parked.as_deref() == Some(seq_debug.as_str())
					&& mid_debug == seq_debug
					&& mid_err == seq_err
					&& after_debug == seq_debug
				{
					format!("(debugpar eq {})", seq_debug.len())
				} else {
					eprintln!("  debugpar: sequential {seq_debug:?} / {seq_err:?}\n  while another rendering is in flight {mid_debug:?} / {mid_err:?}\n  parked thread {parked:?}\n  afterwards {after_debug:?}");
					"(debugpar DIFFERENT)".into()
				}
			}),
		}
	}
}

// ------------------------------------------------------------------ driver

fn fnv1a64(bytes: &[u8]) -> u64 {
	let mut h: u64 = 0xcbf2_9ce4_8422_2325;
	for b in bytes {
		h ^= *b as u64;
		h = h.wrapping_mul(0x0000_0100_0000_01b3);
	}
	h
}

/// Makes `msg` a single s-expression token
fn one_token(msg: &str) -> String {
	msg.chars()
		.map(|c| match c {
			'(' => '[',
			')' => ']',
			c if c.is_whitespace() || c.is_control() => '_',
			c => c,
		})
		.collect()
}

enum Outcome {
	BadCase(String),
	Done(Vec<String>),
}

fn run_history(cat: &Catalogue, history: &History, trace: bool) -> Outcome {
	let started = trace.then(std::time::Instant::now);
	// Declaration order = reverse drop order (also when unwinding): the pre
	// section outlives the kept values, which outlive the slot table.
	let pre = match build_pre(cat, &history.pre) {
		Ok(pre) => pre,
		Err(msg) => return Outcome::BadCase(msg),
	};
	if let Some(started) = started {
		eprintln!("  pre section [{} ms]", started.elapsed().as_millis());
	}
	// The drop counters of the `counted` readers outlive everything that can hold one
	let counters: Vec<Cell<u32>> = (0..N_SLOTS).map(|_| Cell::new(0)).collect();
	let n_counted = Cell::new(0);
	let mut kept: Vec<Kept<'_>> = Vec::new();
	let slots: Vec<RefCell<Option<Obj<'_>>>> = (0..N_SLOTS).map(|_| RefCell::new(None)).collect();
	let mut out = Vec::new();
	Interp {
		cat,
		pre: &pre,
		slots: &slots,
		counters: &counters,
		n_counted: &n_counted,
		trace,
	}
	.run(&history.ops, &mut Scope::None, &mut kept, &mut out);
	// Slots 0..15 are dropped in index order
	drop(slots);
	// Every `counted` reader that was handed to `Reader::from_reader` (whether
	// the open succeeded or not) is gone by now: each must have been dropped once
	if n_counted.get() > 0 {
		let mut drops_token = String::from("(drops");
		for c in &counters[..n_counted.get()] {
			drops_token.push_str(&format!(" {}", c.get()));
		}
		drops_token.push(')');
		out.push(drops_token);
	}
	// The kept values are used after every schema and reader is gone
	let mut kept_token = String::from("(kept");
	for v in &kept {
		let debug = format!("{v:?}");
		kept_token.push_str(&format!(" {:016x}", fnv1a64(debug.as_bytes())));
	}
	kept_token.push(')');
	out.push(kept_token);
	Outcome::Done(out)
}

fn process_line(cat: &Catalogue, line: &str, trace: bool) -> String {
	let history = match parse_history(line) {
		Ok(h) => h,
		Err(msg) => return format!("hist ? (bad-case {})", one_token(&msg)),
	};
	match catch_unwind(AssertUnwindSafe(|| run_history(cat, &history, trace))) {
		Ok(Outcome::Done(tokens)) => format!("hist {} {}", history.id, tokens.join(" ")),
		Ok(Outcome::BadCase(msg)) => format!("hist ? (bad-case {})", one_token(&msg)),
		Err(payload) => {
			let msg = payload
				.downcast_ref::<&str>()
				.map(|s| s.to_string())
				.or_else(|| payload.downcast_ref::<String>().cloned())
				.unwrap_or_else(|| "non-string panic payload".to_owned());
			format!("hist {} (panic {})", history.id, one_token(&msg))
		}
	}
}

fn main() {
	// Panics are reported on the history's result line; the hook only writes
	// to stderr
	std::panic::set_hook(Box::new(|info| {
		eprintln!("  panic: {info}");
	}));
	let cat = Catalogue::new();
	// Diagnostics only (stderr): AVROMIRI_TRACE=1 times every op
	let trace = std::env::var_os("AVROMIRI_TRACE").is_some();
	let stdin = std::io::stdin();
	let mut stdout = std::io::stdout().lock();
	let mut line = String::new();
	loop {
		line.clear();
		match stdin.lock().read_line(&mut line) {
			Ok(0) => break,
			Ok(_) => {}
			Err(e) => {
				eprintln!("stdin: {e}");
				break;
			}
		}
		if line.trim().is_empty() {
			continue;
		}
		let started = std::time::Instant::now();
		let result = process_line(&cat, line.trim(), trace);
		eprintln!("  [{} ms]", started.elapsed().as_millis());
		let written = writeln!(stdout, "{result}").and_then(|()| stdout.flush());
		if let Err(e) = written {
			eprintln!("stdout: {e}");
			break;
		}
	}
}
