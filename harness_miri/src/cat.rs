//! Catalogue: schema JSON texts, Rust types (owned and borrowed flavours) and
//! the deterministic values val(K, i).

use {
	serde::de::DeserializeOwned,
	serde_avro_fast::{
		de::DeError,
		ser::{SerError, SerializerConfig},
		Schema,
	},
	serde_derive::{Deserialize, Serialize},
	std::{cell::OnceCell, collections::BTreeMap},
};

pub const N_CAT: usize = 3;

pub const JSON: [&str; N_CAT] = [
	r#"{"type":"record","name":"R0","fields":[{"name":"a","type":"long"},{"name":"s","type":"string"},{"name":"e","type":{"type":"enum","name":"E0","symbols":["A","B","C"]}},{"name":"u","type":["null","string"]},{"name":"l","type":{"type":"array","items":"int"}}]}"#,
	r#"{"type":"record","name":"N1","fields":[{"name":"v","type":"int"},{"name":"next","type":["null","N1"]}]}"#,
	r#"{"type":"map","values":["null","long","string"]}"#,
];

/// Lazily parsed catalogue schemas (a local of `main`, not a global)
pub struct Catalogue {
	parsed: [OnceCell<Schema>; N_CAT],
}

impl Catalogue {
	pub fn new() -> Self {
		Catalogue {
			parsed: [OnceCell::new(), OnceCell::new(), OnceCell::new()],
		}
	}
	pub fn schema(&self, k: usize) -> &Schema {
		self.parsed[k].get_or_init(|| {
			JSON[k]
				.parse::<Schema>()
				.unwrap_or_else(|e| panic!("catalogue schema {k} does not parse: {e}"))
		})
	}
	/// Datum bytes of val(k, i) under the parsed catalogue schema k
	pub fn reference_bytes(&self, k: usize, i: usize) -> Vec<u8> {
		let mut config = SerializerConfig::new(self.schema(k));
		val(k, i)
			.to_datum(&mut config)
			.unwrap_or_else(|e| panic!("val({k},{i}) does not serialize under catalogue schema: {e}"))
	}
}

// ---------------------------------------------------------------- K = 0

#[derive(Serialize, Deserialize, Debug, PartialEq, Clone, Copy)]
pub enum E0 {
	A,
	B,
	C,
}

#[derive(Serialize, Deserialize, Debug, PartialEq)]
pub struct R0 {
	pub a: i64,
	pub s: String,
	pub e: E0,
	pub u: Option<String>,
	pub l: Vec<i32>,
}

#[derive(Serialize, Deserialize, Debug, PartialEq)]
pub struct R0B<'a> {
	pub a: i64,
	pub s: &'a str,
	pub e: E0,
	#[serde(borrow)]
	pub u: Option<&'a str>,
	pub l: Vec<i32>,
}

/// Same shape as R0B but the enum symbol is requested as a borrowed str
#[derive(Deserialize, Debug)]
#[allow(dead_code)]
pub struct R0SymBorrow<'a> {
	pub a: i64,
	pub s: &'a str,
	pub e: &'a str,
	#[serde(borrow)]
	pub u: Option<&'a str>,
	pub l: Vec<i32>,
}

// ---------------------------------------------------------------- K = 1

#[derive(Serialize, Deserialize, Debug, PartialEq)]
pub struct N1 {
	pub v: i32,
	pub next: Option<Box<N1>>,
}

// ---------------------------------------------------------------- K = 2

#[derive(Serialize, Deserialize, Debug, PartialEq)]
pub enum U2 {
	Null,
	Long(i64),
	String(String),
}

#[derive(Serialize, Deserialize, Debug, PartialEq)]
pub enum U2B<'a> {
	Null,
	Long(i64),
	#[serde(borrow)]
	String(&'a str),
}

pub type M2 = BTreeMap<String, U2>;
pub type M2B<'a> = BTreeMap<&'a str, U2B<'a>>;

// ---------------------------------------------------------------- values

/// An owned catalogue value
#[derive(Debug, PartialEq)]
pub enum Val {
	R0(R0),
	N1(N1),
	M2(M2),
}

/// A value that was deserialized during a history and is kept until after
/// every schema / reader of the history has been dropped. `'f` is the
/// lifetime of the pre section (file and datum bytes).
#[derive(Debug)]
pub enum Kept<'f> {
	Owned(Val),
	R0B(R0B<'f>),
	M2B(M2B<'f>),
}

/// ASCII letters, length (i*7) % 50, content depending on i
pub fn text(i: usize, base: u8) -> String {
	let len = (i * 7) % 50;
	(0..len)
		.map(|j| (base + ((i + 3 * j) % 26) as u8) as char)
		.collect()
}

pub fn val(k: usize, i: usize) -> Val {
	match k {
		0 => Val::R0(R0 {
			a: (i as i64) * 1_000_003 - 5,
			s: text(i, b'a'),
			e: [E0::A, E0::B, E0::C][i % 3],
			u: if i % 2 == 0 {
				None
			} else {
				Some(text(i + 1, b'A'))
			},
			l: (0..(i % 4) as i32).collect(),
		}),
		1 => {
			let depth = i % 4;
			let mut node = N1 {
				v: (i as i32) * 3 + depth as i32,
				next: None,
			};
			for j in (0..depth).rev() {
				node = N1 {
					v: (i as i32) * 3 + j as i32,
					next: Some(Box::new(node)),
				};
			}
			Val::N1(node)
		}
		2 => {
			let mut m = BTreeMap::new();
			for j in 0..(i % 4) {
				let key = format!("k{j}{}", text(i + j, b'a'));
				let v = match (i + j) % 3 {
					0 => U2::Null,
					1 => U2::Long((i as i64) * 1_000_003 - 5 + j as i64),
					_ => U2::String(text(i + j + 2, b'A')),
				};
				m.insert(key, v);
			}
			Val::M2(m)
		}
		_ => panic!("no catalogue entry {k}"),
	}
}

impl Val {
	pub fn to_datum(&self, config: &mut SerializerConfig<'_>) -> Result<Vec<u8>, SerError> {
		match self {
			Val::R0(v) => serde_avro_fast::to_datum_vec(v, config),
			Val::N1(v) => serde_avro_fast::to_datum_vec(v, config),
			Val::M2(v) => serde_avro_fast::to_datum_vec(v, config),
		}
	}
}

impl Kept<'_> {
	/// Is this value val(k, i)?
	pub fn is_val(&self, k: usize, i: usize) -> bool {
		let expected = val(k, i);
		match (self, &expected) {
			(Kept::Owned(v), e) => v == e,
			(Kept::R0B(b), Val::R0(e)) => {
				b.a == e.a && b.s == e.s && b.e == e.e && b.u == e.u.as_deref() && b.l == e.l
			}
			(Kept::M2B(b), Val::M2(e)) => {
				b.len() == e.len()
					&& b.iter().zip(e.iter()).all(|((bk, bv), (ek, ev))| {
						bk == ek
							&& match (bv, ev) {
								(U2B::Null, U2::Null) => true,
								(U2B::Long(x), U2::Long(y)) => x == y,
								(U2B::String(x), U2::String(y)) => x == y,
								_ => false,
							}
					})
			}
			_ => false,
		}
	}
}

// ---------------------------------------------------------------- typed fetch

/// Something a catalogue value can be deserialized from; `'de` is the
/// lifetime of the input bytes borrowed values may point into.
pub trait Source<'de> {
	/// Whether `borrowed` may be called
	const CAN_BORROW: bool;
	fn owned<T: DeserializeOwned>(&mut self) -> Result<Option<T>, DeError>;
	fn borrowed<T: serde::Deserialize<'de>>(&mut self) -> Result<Option<T>, DeError>;
}

/// Deserialize the next value of catalogue type `k` from `src`
pub fn fetch<'f, S: Source<'f>>(
	src: &mut S,
	k: usize,
	borrowed: bool,
) -> Result<Option<Kept<'f>>, DeError> {
	Ok(match (k, borrowed && S::CAN_BORROW) {
		(0, false) => src.owned::<R0>()?.map(|v| Kept::Owned(Val::R0(v))),
		(0, true) => src.borrowed::<R0B<'f>>()?.map(Kept::R0B),
		(1, _) => src.owned::<N1>()?.map(|v| Kept::Owned(Val::N1(v))),
		(2, false) => src.owned::<M2>()?.map(|v| Kept::Owned(Val::M2(v))),
		(2, true) => src.borrowed::<M2B<'f>>()?.map(Kept::M2B),
		_ => panic!("no catalogue entry {k}"),
	})
}
