//! sexp -> SchemaMut (reader half of harness/src/schema.rs, with argument
//! count checks so that a malformed schema is an `Err`, never a panic)
//!
//! (schema (node TYPE LOGICAL) ...)
//! TYPE ::= null|boolean|int|long|float|double|bytes|string | (array K) | (map K)
//!        | (union K...) | (record xNAME (xFIELD K)...) | (enum xNAME xSYM...) | (fixed xNAME SIZE)
//! LOGICAL ::= none | (decimal SCALE PRECISION) | uuid | date | time-millis | time-micros
//!        | timestamp-millis | timestamp-micros | duration | big-decimal | (unknown xNAME)

use crate::sexp::Sx;
use serde_avro_fast::schema::*;

/// Parsed but not yet built: building (`SchemaMut::from_nodes`) is what the
/// `build` op does at run time.
pub fn nodes_from_sx(sx: &Sx) -> Result<Vec<SchemaNode>, String> {
	let (h, nodes) = sx.head()?;
	if h != "schema" {
		return Err(format!("expected (schema ...), got {h}"));
	}
	let mut out = Vec::new();
	for n in nodes {
		let (h, args) = n.head()?;
		if h != "node" || args.len() != 2 {
			return Err("expected (node TYPE LOGICAL)".into());
		}
		let ty = type_from_sx(&args[0])?;
		let lt = logical_from_sx(&args[1])?;
		out.push(match lt {
			None => SchemaNode::new(ty),
			Some(lt) => SchemaNode::with_logical_type(ty, lt),
		});
	}
	Ok(out)
}

pub fn schema_from_nodes(nodes: Vec<SchemaNode>) -> SchemaMut {
	SchemaMut::from_nodes(nodes)
}

fn key(sx: &Sx) -> Result<SchemaKey, String> {
	Ok(SchemaKey::from_idx(sx.int::<usize>()?))
}

fn need(a: &[Sx], n: usize, what: &str) -> Result<(), String> {
	if a.len() < n {
		Err(format!("{what}: expected at least {n} argument(s)"))
	} else {
		Ok(())
	}
}

fn type_from_sx(sx: &Sx) -> Result<RegularType, String> {
	let (h, a) = sx.head()?;
	Ok(match h {
		"null" => RegularType::Null,
		"boolean" => RegularType::Boolean,
		"int" => RegularType::Int,
		"long" => RegularType::Long,
		"float" => RegularType::Float,
		"double" => RegularType::Double,
		"bytes" => RegularType::Bytes,
		"string" => RegularType::String,
		"array" => {
			need(a, 1, "array")?;
			RegularType::Array(Array::new(key(&a[0])?))
		}
		"map" => {
			need(a, 1, "map")?;
			RegularType::Map(Map::new(key(&a[0])?))
		}
		"union" => RegularType::Union(Union::new(
			a.iter().map(key).collect::<Result<Vec<_>, _>>()?,
		)),
		"record" => {
			need(a, 1, "record")?;
			let name = Name::from_fully_qualified_name(a[0].string()?);
			let mut fields = Vec::new();
			for f in &a[1..] {
				let l = f.list()?;
				need(l, 2, "record field")?;
				fields.push(RecordField::new(l[0].string()?, key(&l[1])?));
			}
			RegularType::Record(Record::new(name, fields))
		}
		"enum" => {
			need(a, 1, "enum")?;
			let name = Name::from_fully_qualified_name(a[0].string()?);
			let syms = a[1..]
				.iter()
				.map(|s| s.string())
				.collect::<Result<Vec<_>, _>>()?;
			RegularType::Enum(Enum::new(name, syms))
		}
		"fixed" => {
			need(a, 2, "fixed")?;
			let name = Name::from_fully_qualified_name(a[0].string()?);
			RegularType::Fixed(Fixed::new(name, a[1].int::<usize>()?))
		}
		other => return Err(format!("unknown type {other}")),
	})
}

fn logical_from_sx(sx: &Sx) -> Result<Option<LogicalType>, String> {
	let (h, a) = sx.head()?;
	Ok(Some(match h {
		"none" => return Ok(None),
		"decimal" => {
			need(a, 2, "decimal")?;
			LogicalType::Decimal(Decimal::new(a[0].int::<u32>()?, a[1].int::<usize>()?))
		}
		"uuid" => LogicalType::Uuid,
		"date" => LogicalType::Date,
		"time-millis" => LogicalType::TimeMillis,
		"time-micros" => LogicalType::TimeMicros,
		"timestamp-millis" => LogicalType::TimestampMillis,
		"timestamp-micros" => LogicalType::TimestampMicros,
		"duration" => LogicalType::Duration,
		"big-decimal" => LogicalType::BigDecimal,
		"unknown" => {
			need(a, 1, "unknown")?;
			LogicalType::Unknown(UnknownLogicalType::new(a[0].string()?))
		}
		other => return Err(format!("unknown logical type {other}")),
	}))
}
