//! Minimal S-expression reader/printer shared (as a format) with the OCaml
//! model driver and the Python generators.
//!
//! Atoms are runs of non-space, non-paren characters. Byte strings are atoms
//! of the form `x<hex>` (`x` alone is the empty string).

#![allow(dead_code)]

#[derive(Clone, Debug, PartialEq, Eq)]
pub enum Sx {
	A(String),
	L(Vec<Sx>),
}

impl Sx {
	pub fn parse(s: &str) -> Result<Sx, String> {
		let mut p = Parser {
			b: s.as_bytes(),
			i: 0,
		};
		let v = p.value()?;
		p.ws();
		if p.i != p.b.len() {
			return Err(format!("trailing input at {}", p.i));
		}
		Ok(v)
	}
	/// Parse a whole line as a sequence of values
	pub fn parse_many(s: &str) -> Result<Vec<Sx>, String> {
		let mut p = Parser {
			b: s.as_bytes(),
			i: 0,
		};
		let mut out = Vec::new();
		loop {
			p.ws();
			if p.i == p.b.len() {
				return Ok(out);
			}
			out.push(p.value()?);
		}
	}
	pub fn atom(&self) -> Result<&str, String> {
		match self {
			Sx::A(a) => Ok(a),
			Sx::L(_) => Err(format!("expected atom, got {}", self)),
		}
	}
	pub fn list(&self) -> Result<&[Sx], String> {
		match self {
			Sx::L(l) => Ok(l),
			Sx::A(_) => Err(format!("expected list, got {}", self)),
		}
	}
	/// `(head args...)` or bare atom `head` (no args)
	pub fn head(&self) -> Result<(&str, &[Sx]), String> {
		match self {
			Sx::A(a) => Ok((a, &[])),
			Sx::L(l) => match l.split_first() {
				Some((Sx::A(h), rest)) => Ok((h, rest)),
				_ => Err(format!("expected (head ...), got {}", self)),
			},
		}
	}
	pub fn int<T: std::str::FromStr>(&self) -> Result<T, String> {
		let a = self.atom()?;
		a.parse::<T>().map_err(|_| format!("bad integer {a}"))
	}
	pub fn bytes(&self) -> Result<Vec<u8>, String> {
		let a = self.atom()?;
		let h = a
			.strip_prefix('x')
			.ok_or_else(|| format!("expected hex atom, got {a}"))?;
		if h.len() % 2 != 0 {
			return Err(format!("odd hex {a}"));
		}
		(0..h.len() / 2)
			.map(|i| u8::from_str_radix(&h[2 * i..2 * i + 2], 16).map_err(|_| format!("bad hex {a}")))
			.collect()
	}
	pub fn string(&self) -> Result<String, String> {
		String::from_utf8(self.bytes()?).map_err(|_| "string atom is not utf-8".to_string())
	}
}

pub fn hex(b: &[u8]) -> String {
	let mut s = String::with_capacity(1 + 2 * b.len());
	s.push('x');
	for v in b {
		s.push_str(&format!("{:02x}", v));
	}
	s
}

impl std::fmt::Display for Sx {
	fn fmt(&self, f: &mut std::fmt::Formatter<'_>) -> std::fmt::Result {
		match self {
			Sx::A(a) => f.write_str(a),
			Sx::L(l) => {
				f.write_str("(")?;
				for (i, v) in l.iter().enumerate() {
					if i > 0 {
						f.write_str(" ")?;
					}
					v.fmt(f)?;
				}
				f.write_str(")")
			}
		}
	}
}

struct Parser<'a> {
	b: &'a [u8],
	i: usize,
}
impl Parser<'_> {
	fn ws(&mut self) {
		while self.i < self.b.len() && (self.b[self.i] as char).is_ascii_whitespace() {
			self.i += 1;
		}
	}
	fn value(&mut self) -> Result<Sx, String> {
		// iterative to survive very deep inputs
		let mut stack: Vec<Vec<Sx>> = Vec::new();
		loop {
			self.ws();
			if self.i >= self.b.len() {
				return Err("unexpected end".into());
			}
			let done: Sx;
			match self.b[self.i] {
				b'(' => {
					self.i += 1;
					stack.push(Vec::new());
					continue;
				}
				b')' => {
					self.i += 1;
					match stack.pop() {
						None => return Err("unbalanced )".into()),
						Some(l) => done = Sx::L(l),
					}
				}
				_ => {
					let st = self.i;
					while self.i < self.b.len()
						&& !(self.b[self.i] as char).is_ascii_whitespace()
						&& self.b[self.i] != b'('
						&& self.b[self.i] != b')'
					{
						self.i += 1;
					}
					done = Sx::A(String::from_utf8_lossy(&self.b[st..self.i]).into_owned());
				}
			}
			match stack.last_mut() {
				None => return Ok(done),
				Some(top) => top.push(done),
			}
		}
	}
}
