#!/bin/bash
# tools/seedsweep.sh <log> <seed name>... : runs each seed's own property check against it, in the scratch copy
# (one sync of /verif at the start). Results appended to <log> as JSON lines.
LOG="$1"; shift
first=1
for s in "$@"; do
  if [ $first = 1 ]; then VSEED_SYNC=1 /verif/tools/seedrun.py /verif/seeded/$s >> "$LOG" 2>&1; first=0
  else VSEED_SYNC=0 /verif/tools/seedrun.py /verif/seeded/$s >> "$LOG" 2>&1; fi
done
echo "SWEEP DONE" >> "$LOG"
