#!/usr/bin/env python3
"""tools/seedrun.py [--inplace] [--tier quick] <seed dir> [<property id> ...]

Runs the registered checks against a seeded change (seeded/<id>/patch.diff).

default mode: a scratch copy -- /verif is copied to /tmp/vseed/verif, a scratch worktree of /repo
  gets the patch (/tmp/vseed/repo), the copy's harness is pointed at it (VERIF_REPO), the checks run
  there. Nothing in /repo or /verif changes, so other work can go on meanwhile.
--inplace: the protocol of the brief -- git -C /repo apply, ./check in /verif, git -C /repo checkout -- .

Prints one JSON line per (seed, property): {"seed":..., "property":..., "rc":..., "verdict": "...", "line": "..."}"""
import json, os, subprocess, sys, time

V = os.path.dirname(os.path.dirname(os.path.abspath(__file__)))

def sh(cmd, **kw):
    return subprocess.run(cmd, shell=isinstance(cmd, str), capture_output=True, text=True, **kw)

def main():
    args = sys.argv[1:]
    inplace = False
    tier = "quick"
    while args and args[0].startswith("--"):
        a = args.pop(0)
        if a == "--inplace":
            inplace = True
        elif a == "--tier":
            tier = args.pop(0)
    seed = os.path.abspath(args[0])
    meta = json.load(open(os.path.join(seed, "meta.json")))
    pids = args[1:] or [meta["property"]]
    patch = os.path.join(seed, "patch.diff")
    if inplace:
        repo, verif = "/repo", V
        st = sh(["git", "-C", repo, "status", "--porcelain", "--untracked-files=no"]).stdout.strip()
        if st:
            print("refusing: /repo has uncommitted changes:\n" + st)
            return 2
    else:
        root = os.environ.get("VSEED_ROOT", "/tmp/vseed")
        repo, verif = os.path.join(root, "repo"), os.path.join(root, "verif")
        os.makedirs(root, exist_ok=True)
        if not os.path.isdir(repo):
            r = sh(["git", "-C", "/repo", "worktree", "add", "--detach", repo, "HEAD"])
            if r.returncode:
                print(r.stderr); return 2
        sh(["git", "-C", repo, "checkout", "-q", "--", "."])
        head = sh(["git", "-C", "/repo", "rev-parse", "HEAD"]).stdout.strip()
        sh(["git", "-C", repo, "checkout", "-q", "--detach", head])
        r = sh(["true"]) if os.environ.get("VSEED_SYNC") == "0" and os.path.isdir(verif) else sh(["rsync", "-a", "--delete", "--exclude", ".git", "--exclude", "work/replay", "--exclude", "seeded",
                V + "/", verif + "/"])
        if r.returncode:
            print(r.stderr); return 2
        ct = os.path.join(verif, "harness", "Cargo.toml")
        txt = open(ct).read().replace('"/repo/', '"%s/' % repo)
        open(ct, "w").write(txt)
        ct2 = os.path.join(verif, "harness_miri", "Cargo.toml")
        if os.path.exists(ct2):
            t2 = open(ct2).read().replace('"/repo/', '"%s/' % repo)
            open(ct2, "w").write(t2)
    r = sh(["git", "-C", repo, "apply", patch])
    if r.returncode:
        print("patch does not apply: " + r.stderr); return 2
    out = []
    try:
        for pid in pids:
            t0 = time.time()
            env = dict(os.environ, VERIF_REPO=repo, VERIF_TIER=tier)
            r = sh(["./check", pid, "--tier", tier], cwd=verif, env=env)
            lines = [l for l in (r.stdout + r.stderr).split("\n") if l.strip()]
            viol = [l for l in lines if l.startswith("VIOLATION")]
            verdict = "missed"
            if viol:
                verdict = "caught-no-input" if "no-failing-input-found" in viol[0] else "caught"
            elif r.returncode != 0:
                verdict = "error rc=%d" % r.returncode
            rec = {"seed": os.path.basename(seed), "property": pid, "rc": r.returncode, "verdict": verdict,
                   "line": viol[0] if viol else (lines[-1] if lines else ""), "wall_s": round(time.time() - t0, 1)}
            if viol:
                # first reported case, for the record
                try:
                    path = viol[0].split("replay=")[1].split()[0]
                    rp = json.load(open(path))
                    c = (rp.get("cases") or rp.get("model_vs_impl_differences") or rp.get("broken") or [None])[0]
                    rec["first"] = json.dumps(c)[:600]
                except Exception as e:
                    rec["first"] = "?" + repr(e)
            print(json.dumps(rec), flush=True)
            out.append(rec)
    finally:
        sh(["git", "-C", repo, "checkout", "-q", "--", "."])
    return 0

if __name__ == "__main__":
    sys.exit(main())
