#!/usr/bin/env python3
"""Regenerates MANIFEST.json from tools/claims.json (claimed checks) and properties.jsonl."""
import json, os
V = os.path.dirname(os.path.dirname(os.path.abspath(__file__)))
props = [json.loads(l) for l in open(os.path.join(V, "properties.jsonl"))]
claims = json.load(open(os.path.join(V, "tools", "claims.json")))
hooks = json.load(open(os.path.join(V, "tools", "hooks.json")))
m = {
    "version": 1,
    "setup_cmd": "./setup.sh",
    "hooks": {
        "guard": "ten0_serde_avro_fast_verif",
        "enable": "RUSTFLAGS=\"--cfg ten0_serde_avro_fast_verif\" (set in /verif/harness/.cargo/config.toml; the harness crate depends on /repo/serde_avro_fast by path)",
        "baseline_off_cmd": "cd /repo && cargo test --workspace --no-fail-fast --offline",
        "source_commits": hooks["source_commits"],
        "add_only": True,
    },
    "engines": [{"name": "coq-model", "path": "/verif/coq", "serves_properties": sorted(claims["claimed"].keys()),
                 "kind_free_text": "Coq 8.16.1 model + theorems (coq/), table translators (translators/), extracted OCaml model driver (ocaml/), Rust differential harness (harness/), orchestration (check, lib/)"}],
    "checks": [],
    "not_applicable": [],
    "notes": "Every check: regenerates coq/gen/*.v from /repo, full .vo build of the property's theorems, Print Assumptions audit, source audit, "
             "pinned statement hash, rebuilds the harness against /repo's working tree, model-vs-implementation correspondence and the property "
             "oracle on the implementation. See DESIGN.md.",
}
for p in props:
    pid = p["id"]
    if pid in claims["claimed"]:
        c = claims["claimed"][pid]
        m["checks"].append({
            "property_id": pid,
            "quick_cmd": "./check %s --tier quick" % pid,
            "thorough_cmd": "./check %s --tier thorough" % pid,
            "evidence_file": "/verif/evidence/%s.json" % pid,
            "replay_cmd_template": "./check %s --replay {path}" % pid,
            "engine": "coq-model",
            "level_claimed": {"category": "proof", "text": c["text"], "design_ref": c.get("design_ref", "DESIGN.md §6 " + pid)},
            "level_note": c["note"],
            "technique": c.get("technique", "Coq proof over an executable model + model/implementation correspondence + property oracle on the implementation"),
        })
    else:
        m["not_applicable"].append({"property_id": pid, "reason": claims["not_applicable"].get(pid, "not claimed yet: machinery for this property is still being built (DESIGN.md build log)")})
json.dump(m, open(os.path.join(V, "MANIFEST.json"), "w"), indent=1)
print("claimed:", sorted(claims["claimed"].keys()))
