#!/usr/bin/env python3
"""tools/keep_seeds.py <verify log> : copies every CONFIRMED seed from /tmp/mut/out/<name>/ to
/verif/seeded/<name>/ (patch.diff, demo.rs, meta.json with what was run to confirm it)."""
import json, os, re, shutil, sys
V = os.path.dirname(os.path.dirname(os.path.abspath(__file__)))
for line in open(sys.argv[1]):
    m = re.match(r"SEED (\S+) base_demo=(\S+) suite=(\S+) patched_demo=(\S+) => (\S+)", line)
    if not m or m.group(5) != "CONFIRMED":
        continue
    name = m.group(1)
    src = os.environ.get("SEED_SRC", "/tmp/mut/out") + "/" + name
    dst = os.path.join(V, "seeded", name)
    os.makedirs(dst, exist_ok=True)
    for f in ("patch.diff", "demo.rs"):
        shutil.copy(os.path.join(src, f), os.path.join(dst, f))
    meta = json.load(open(os.path.join(src, "meta.json")))
    keep = {
        "property": meta.get("property", name.split("_")[0]),
        "summary": meta.get("summary", ""),
        "needs_to_manifest": meta.get("needs_to_manifest", ""),
        "author": "independent sub-agent given only the property text and a scratch worktree of /repo",
        "author_ran": meta.get("ran", []),
        "confirmed_by": "tools/verify_seed.sh in a scratch worktree (/tmp/mut/verify, removed afterwards): demo passes on the unmodified code; with the patch `cargo build --workspace`, `cargo build -p serde_avro_fast --all-features` and `cargo test --workspace --no-fail-fast --offline` (existing suite, unedited) pass; with the patch the demo fails",
        "confirmed": {"base_demo": m.group(2), "suite_with_patch": m.group(3), "demo_with_patch": m.group(4)},
    }
    old = os.path.join(dst, "meta.json")
    if os.path.exists(old):
        o = json.load(open(old))
        for k in ("detection",):
            if k in o:
                keep[k] = o[k]
    json.dump(keep, open(old, "w"), indent=1)
    print("kept", name)
