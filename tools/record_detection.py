#!/usr/bin/env python3
"""tools/record_detection.py <sweep log>... : merges the JSON lines written by tools/seedrun.py into
seeded/<id>/meta.json under "detection" (one entry per property check run against the seed; the latest
run of a (seed, property) pair wins), and prints the table used in DESIGN.md §10.5."""
import json, os, sys
V = os.path.dirname(os.path.dirname(os.path.abspath(__file__)))
for log in sys.argv[1:]:
    for l in open(log):
        l = l.strip()
        if not l.startswith("{"):
            continue
        d = json.loads(l)
        mp = os.path.join(V, "seeded", d["seed"], "meta.json")
        if not os.path.exists(mp):
            continue
        m = json.load(open(mp))
        det = m.setdefault("detection", {})
        det[d["property"]] = {"verdict": d["verdict"], "violation_line": d.get("line", "")[:200].replace("/tmp/vseed/verif", "/verif"),
                              "first_case": d.get("first", "")[:400], "wall_s": d.get("wall_s"), "mode": d.get("mode", "scratch copy of /verif + patched worktree of /repo")}
        json.dump(m, open(mp, "w"), indent=1)
rows = []
for name in sorted(os.listdir(os.path.join(V, "seeded"))):
    m = json.load(open(os.path.join(V, "seeded", name, "meta.json")))
    det = m.get("detection", {})
    own = det.get(m["property"], {}).get("verdict", "not run")
    others = ", ".join("%s: %s" % (p, r["verdict"]) for p, r in sorted(det.items()) if p != m["property"])
    rows.append("| %s | %s | %s | %s | %s |" % (name, m["property"], m["summary"][:110].replace("|", "/"), own, others))
print("| seed | property | change | own check | other checks |\n|---|---|---|---|---|")
print("\n".join(rows))
