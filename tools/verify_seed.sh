#!/bin/bash
# tools/verify_seed.sh <dir with patch.diff demo.rs meta.json> [<scratch worktree>]
# Confirms a seeded change independently, in a scratch worktree of /repo (never in /repo):
#   1. the demonstration passes on the unmodified code,
#   2. with the patch: the workspace builds (default and all features), the existing suite passes unedited,
#   3. with the patch: the demonstration fails.
# Prints one line "SEED <name> base_demo=<pass|fail> suite=<pass|fail> patched_demo=<pass|fail> => <CONFIRMED|REJECTED>"
set -u
D="$(cd "$1" && pwd)"
WT="${2:-/tmp/mut/verify}"
NAME="$(basename "$D")"
export CARGO_NET_OFFLINE=true
if [ ! -d "$WT" ]; then git -C /repo worktree add --detach "$WT" HEAD >/dev/null 2>&1 || exit 2; fi
cd "$WT" || exit 2
git checkout -q -- . && git clean -fdq -e target
git checkout -q --detach "$(git -C /repo rev-parse HEAD)" || exit 2     # always the current HEAD of /repo
# where does the demo go?
first="$(head -3 "$D/demo.rs")"
crate=serde_avro_fast
case "$first" in *"lace at serde_avro_derive/tests"*|*"laced at serde_avro_derive/tests"*) crate=serde_avro_derive;; esac
tname="seeded_${NAME}"
tfile="$WT/$crate/tests/$tname.rs"
LOG="/tmp/mut/verify_$NAME.log"; : > "$LOG"
run_demo() { cp "$D/demo.rs" "$tfile"; timeout 1800 cargo test -p $crate --offline --all-features --test "$tname" >>"$LOG" 2>&1; rc=$?; rm -f "$tfile"; return $rc; }
if run_demo; then base=pass; else base=fail; fi
if ! git apply "$D/patch.diff" >>"$LOG" 2>&1; then echo "SEED $NAME patch does not apply => REJECTED"; exit 1; fi
suite=pass
timeout 3000 cargo build --workspace --offline >>"$LOG" 2>&1 || suite=fail
timeout 3000 cargo build -p serde_avro_fast --offline --all-features >>"$LOG" 2>&1 || suite=fail
timeout 3000 cargo test --workspace --no-fail-fast --offline >>"$LOG" 2>&1 || suite=fail
if run_demo; then patched=pass; else patched=fail; fi
git checkout -q -- . && git clean -fdq -e target
verdict=REJECTED
if [ "$base" = pass ] && [ "$suite" = pass ] && [ "$patched" = fail ]; then verdict=CONFIRMED; fi
echo "SEED $NAME base_demo=$base suite=$suite patched_demo=$patched => $verdict"
[ "$verdict" = CONFIRMED ]
