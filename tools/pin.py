#!/usr/bin/env python3
"""tools/pin.py Cxx ... : records the SHA-256 of coq/props/Cxx.v in coq/props/PINS.json (done by hand,
deliberately, when a statement file is written or strengthened; ./check verifies it on every run)."""
import hashlib, json, os, sys
V = os.path.dirname(os.path.dirname(os.path.abspath(__file__)))
P = os.path.join(V, "coq", "props", "PINS.json")
pins = json.load(open(P))
for pid in sys.argv[1:]:
    pins[pid] = hashlib.sha256(open(os.path.join(V, "coq", "props", pid + ".v"), "rb").read()).hexdigest()
json.dump(dict(sorted(pins.items())), open(P, "w"), indent=1)
print(sorted(pins))
