#!/bin/bash
# Builds the framework from files on disk only (offline): generated model parts, all Coq
# theories (full .vo build), the extracted OCaml model driver, the Rust harness.
set -e
cd "$(dirname "$0")"
export CARGO_NET_OFFLINE=true
mkdir -p work coq/gen evidence
python3 -c "import sys; sys.path.insert(0, 'lib'); import common; b = common.regenerate(); print('translators:', b or 'ok'); sys.exit(1 if b else 0)"
(cd coq && coq_makefile -f _CoqProject -o Makefile >/dev/null && timeout 3000 make -j16 2>&1 | grep -v "^COQ\|Closed under the global context" || true)
(cd coq && make -j16 >/dev/null)
bash ocaml/build.sh
cp /repo/Cargo.lock harness/Cargo.lock
(cd harness && cargo build --release --offline 2>&1 | tail -2)
test -x harness/target/release/avrodrive
# Miri replay crate of C10 (native build + warm Miri build)
cp /repo/Cargo.lock harness_miri/Cargo.lock
(cd harness_miri && cargo build --release --offline 2>&1 | tail -1 && (echo "" | MIRIFLAGS=-Zmiri-disable-isolation timeout 1200 cargo +nightly miri run --offline -q >/dev/null 2>&1 || true))
echo "setup ok"
