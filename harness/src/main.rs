//! avrodrive: runs cases (one per stdin line) against the real serde_avro_fast
//! crate in /repo and prints one canonical result per line.

mod apache;
mod codecloop;
mod container;
mod decblock;
mod dtarget;
mod io;
mod rt_fixed;
mod rt_kf;
mod gen_types;
mod rtypes;
mod schema;
mod sexp;
mod sval;

use dtarget::{DTarget, DVal};

/// Counting allocator: allocations made while COUNTING is on (per thread)
struct Counting;
thread_local! {
	static COUNTING: std::cell::Cell<bool> = const { std::cell::Cell::new(false) };
	static ALLOCS: std::cell::Cell<(usize, usize)> = const { std::cell::Cell::new((0, 0)) };
}
unsafe impl std::alloc::GlobalAlloc for Counting {
	unsafe fn alloc(&self, l: std::alloc::Layout) -> *mut u8 {
		let _ = COUNTING.try_with(|c| {
			if c.get() {
				let _ = ALLOCS.try_with(|a| {
					let (n, m) = a.get();
					a.set((n + 1, m.max(l.size())));
				});
			}
		});
		std::alloc::System.alloc(l)
	}
	unsafe fn dealloc(&self, p: *mut u8, l: std::alloc::Layout) {
		std::alloc::System.dealloc(p, l)
	}
	unsafe fn realloc(&self, p: *mut u8, l: std::alloc::Layout, new_size: usize) -> *mut u8 {
		let _ = COUNTING.try_with(|c| {
			if c.get() {
				let _ = ALLOCS.try_with(|a| {
					let (n, m) = a.get();
					a.set((n + 1, m.max(new_size)));
				});
			}
		});
		std::alloc::System.realloc(p, l, new_size)
	}
}
#[global_allocator]
static GLOBAL: Counting = Counting;
use sexp::{hex, Sx};
use std::io::{BufRead, Write};

fn esc(s: &str) -> String {
	hex(s.as_bytes())
}

pub fn get_schema(sx: &Sx) -> Result<serde_avro_fast::Schema, String> {
	// (json xTEXT) | (schema ...)
	let (h, a) = sx.head()?;
	match h {
		"json" => a[0]
			.string()?
			.parse::<serde_avro_fast::Schema>()
			.map_err(|e| format!("schema parse: {e}")),
		"schema" => schema::schema_from_sx(sx)?
			.freeze()
			.map_err(|e| format!("schema freeze: {e}")),
		_ => Err("expected (json ..) or (schema ..)".into()),
	}
}

fn cmd_ser(a: &[Sx]) -> Result<String, String> {
	// ser SCHEMA SVAL [slow]
	let schema = get_schema(&a[0])?;
	let v = sval::SVal::from_sx(&a[1])?;
	let mut cfg = serde_avro_fast::ser::SerializerConfig::new(&schema);
	if a.get(2).map_or(false, |f| f.atom() == Ok("slow")) {
		cfg.allow_slow_sequence_to_bytes();
	}
	Ok(match serde_avro_fast::to_datum_vec(&v, &mut cfg) {
		Ok(b) => format!("(ok {})", hex(&b)),
		Err(e) => format!("(err {})", esc(&e.to_string())),
	})
}

pub fn de_cfg<'s>(
	schema: &'s serde_avro_fast::Schema,
	cfg: Option<&Sx>,
) -> Result<(serde_avro_fast::de::DeserializerConfig<'s>, Option<usize>), String> {
	let mut c = serde_avro_fast::de::DeserializerConfig::new(schema);
	let mut max_alloc = None;
	if let Some(cfg) = cfg {
		let (h, a) = cfg.head()?;
		if h != "cfg" {
			return Err("expected (cfg max_seq depth max_alloc)".into());
		}
		c.max_seq_size = a[0].int()?;
		c.allowed_depth = a[1].int()?;
		if a.len() > 2 {
			max_alloc = Some(a[2].int()?);
		}
	}
	Ok((c, max_alloc))
}

fn fmt_de(res: Result<DVal, serde_avro_fast::de::DeError>, rest: usize) -> String {
	match res {
		Ok(d) => format!("(ok {d} {rest})"),
		Err(e) => format!(
			"(err {} {})",
			if e.io_error().is_some() { "io" } else { "data" },
			esc(&e.to_string())
		),
	}
}

fn cmd_de(a: &[Sx]) -> Result<String, String> {
	// de SCHEMA TARGET xBYTES MODE [CFG]
	let schema = get_schema(&a[0])?;
	let target = DTarget::from_sx(&a[1])?;
	let bytes = a[2].bytes()?;
	let (cfg, max_alloc) = de_cfg(&schema, a.get(4))?;
	let (mh, ma) = a[3].head()?;
	use serde::de::DeserializeSeed;
	Ok(match mh {
		"slice" => {
			dtarget::INPUT.with(|c| c.set((bytes.as_ptr() as usize, bytes.len())));
			let mut st = serde_avro_fast::de::DeserializerState::with_config(
				serde_avro_fast::de::read::SliceRead::new(&bytes),
				cfg,
			);
			let res = (&target).deserialize(st.deserializer());
			let mut reader = st.into_reader();
			let mut rest = Vec::new();
			std::io::Read::read_to_end(&mut reader, &mut rest).unwrap();
			dtarget::INPUT.with(|c| c.set((0, 0)));
			fmt_de(res, rest.len())
		}
		"chunks" => {
			let plan = ma.iter().map(|s| s.int::<usize>()).collect::<Result<Vec<_>, _>>()?;
			let r = io::ChunkedReader::new(bytes.clone(), plan);
			let mut rr = serde_avro_fast::de::read::ReaderRead::new(r);
			if let Some(m) = max_alloc {
				rr.max_alloc_size = m;
			}
			let mut st = serde_avro_fast::de::DeserializerState::with_config(rr, cfg);
			let res = (&target).deserialize(st.deserializer());
			let reader = st.into_reader().into_inner();
			fmt_de(res, reader.remaining())
		}
		other => return Err(format!("unknown mode {other}")),
	})
}

/// hist SCHEMA SLOW (job SVAL BUDGET|none)... : consecutive to_datum calls sharing one SerializerConfig;
/// each job has its own sink, which fails after BUDGET bytes
fn cmd_hist(a: &[Sx]) -> Result<String, String> {
	let schema = get_schema(&a[0])?;
	let mut cfg = serde_avro_fast::ser::SerializerConfig::new(&schema);
	if a[1].int::<u8>()? != 0 {
		cfg.allow_slow_sequence_to_bytes();
	}
	let mut out = String::from("(ok");
	for j in &a[2..] {
		let (h, ja) = j.head()?;
		if h != "job" {
			return Err("expected (job SVAL BUDGET)".into());
		}
		let v = sval::SVal::from_sx(&ja[0])?;
		let mut sink = io::ScheduledWriter::new(vec![], false);
		if ja[1].atom()? != "none" {
			sink.budget = Some(ja[1].int::<usize>()?);
		}
		let r = std::panic::catch_unwind(std::panic::AssertUnwindSafe(|| {
			serde_avro_fast::to_datum(&v, &mut sink, &mut cfg).map(|_| ())
		}));
		match r {
			Ok(Ok(())) => out.push_str(&format!(" (ok {})", hex(&sink.out))),
			Ok(Err(e)) => out.push_str(&format!(" (err {})", esc(&e.to_string()))),
			Err(_) => out.push_str(" (panic)"),
		}
	}
	out.push(')');
	Ok(out)
}

thread_local! {
	static CURRENT_TARGET: std::cell::RefCell<Option<DTarget>> = const { std::cell::RefCell::new(None) };
}
/// A `Deserialize` type for APIs that do not take a seed: records the callbacks for the target
/// stored in CURRENT_TARGET
struct Recorded(DVal);
impl<'de> serde::Deserialize<'de> for Recorded {
	fn deserialize<D: serde::Deserializer<'de>>(d: D) -> Result<Self, D::Error> {
		use serde::de::DeserializeSeed;
		let t = CURRENT_TARGET.with(|c| c.borrow().clone()).expect("target set");
		(&t).deserialize(d).map(Recorded)
	}
}

/// sos SCHEMA SVAL : single-object serialization
fn cmd_sos(a: &[Sx]) -> Result<String, String> {
	let schema = get_schema(&a[0])?;
	let v = sval::SVal::from_sx(&a[1])?;
	let mut cfg = serde_avro_fast::ser::SerializerConfig::new(&schema);
	Ok(match serde_avro_fast::to_single_object_vec(&v, &mut cfg) {
		Ok(b) => format!("(ok {} {})", hex(&b), hex(schema.rabin_fingerprint())),
		Err(e) => format!("(err {})", esc(&e.to_string())),
	})
}

/// sod SCHEMA TARGET xBYTES MODE : single-object deserialization (slice | (chunks ...))
fn cmd_sod(a: &[Sx]) -> Result<String, String> {
	let schema = get_schema(&a[0])?;
	let target = DTarget::from_sx(&a[1])?;
	let bytes = a[2].bytes()?;
	let (mh, ma) = a[3].head()?;
	CURRENT_TARGET.with(|c| *c.borrow_mut() = Some(target));
	let res = match mh {
		"slice" => {
			dtarget::INPUT.with(|c| c.set((bytes.as_ptr() as usize, bytes.len())));
			let r = serde_avro_fast::from_single_object_slice::<Recorded>(&bytes, &schema);
			dtarget::INPUT.with(|c| c.set((0, 0)));
			r
		}
		"chunks" => {
			let plan = ma.iter().map(|s| s.int::<usize>()).collect::<Result<Vec<_>, _>>()?;
			serde_avro_fast::from_single_object_reader::<_, Recorded>(io::ChunkedReader::new(bytes.clone(), plan), &schema)
		}
		other => return Err(format!("unknown mode {other}")),
	};
	Ok(match res {
		Ok(Recorded(d)) => format!("(ok {d})"),
		Err(e) => format!("(err {} {})", if e.io_error().is_some() { "io" } else { "data" }, esc(&e.to_string())),
	})
}

/// dealloc SCHEMA xBYTES MODE [CFG] : decode into IgnoredAny counting the heap allocations made during the call
/// -> (ok REST ALLOCS MAXSIZE) | (err ALLOCS MAXSIZE)
fn cmd_dealloc(a: &[Sx]) -> Result<String, String> {
	let schema = get_schema(&a[0])?;
	let bytes = a[1].bytes()?;
	let (cfg, max_alloc) = de_cfg(&schema, a.get(3))?;
	let (mh, ma) = a[2].head()?;
	ALLOCS.with(|c| c.set((0, 0)));
	let out = match mh {
		"slice" => {
			let mut st = serde_avro_fast::de::DeserializerState::with_config(serde_avro_fast::de::read::SliceRead::new(&bytes), cfg);
			COUNTING.with(|c| c.set(true));
			let res: Result<serde::de::IgnoredAny, _> = serde::Deserialize::deserialize(st.deserializer());
			COUNTING.with(|c| c.set(false));
			let mut reader = st.into_reader();
			let mut rest = Vec::new();
			std::io::Read::read_to_end(&mut reader, &mut rest).unwrap();
			(res.is_ok(), rest.len())
		}
		"chunks" => {
			let plan = ma.iter().map(|s| s.int::<usize>()).collect::<Result<Vec<_>, _>>()?;
			let mut rr = serde_avro_fast::de::read::ReaderRead::new(io::ChunkedReader::new(bytes.clone(), plan));
			if let Some(m) = max_alloc {
				rr.max_alloc_size = m;
			}
			let mut st = serde_avro_fast::de::DeserializerState::with_config(rr, cfg);
			COUNTING.with(|c| c.set(true));
			let res: Result<serde::de::IgnoredAny, _> = serde::Deserialize::deserialize(st.deserializer());
			COUNTING.with(|c| c.set(false));
			let r = st.into_reader().into_inner();
			(res.is_ok(), r.remaining())
		}
		other => return Err(format!("unknown mode {other}")),
	};
	let (n, m) = ALLOCS.with(|c| c.get());
	Ok(if out.0 { format!("(ok {} {n} {m})", out.1) } else { format!("(err {n} {m})") })
}

fn cmd_fp(a: &[Sx]) -> Result<String, String> {
	// fp SCHEMA_NODES : canonical form text (hook H1) and fingerprint of a node graph
	let s = schema::schema_from_sx(&a[0])?;
	let pcf = s.verif_canonical_form();
	let fp = s.canonical_form_rabin_fingerprint();
	Ok(match (pcf, fp) {
		(Ok(p), Ok(f)) => format!("(ok {} {})", hex(&f), esc(&p)),
		(Err(e), Err(_)) => format!("(err {})", esc(&e.to_string())),
		(p, f) => format!("(inconsistent {} {})", p.is_ok(), f.is_ok()),
	})
}

fn cmd_parse(a: &[Sx]) -> Result<String, String> {
	// parse xJSON : nodes, canonical form, fingerprint, reported json
	let text = a[0].string()?;
	Ok(match text.parse::<serde_avro_fast::schema::SchemaMut>() {
		Err(e) => format!("(err {})", esc(&e.to_string())),
		Ok(s) => {
			let nodes = schema::schema_to_sx(&s);
			let pcf = s.verif_canonical_form().map_err(|e| e.to_string())?;
			let fp = s.canonical_form_rabin_fingerprint().map_err(|e| e.to_string())?;
			match s.freeze() {
				Err(e) => format!("(freeze-err {})", esc(&e.to_string())),
				Ok(f) => format!(
					"(ok {} {} {} {})",
					nodes,
					esc(&pcf),
					hex(&fp),
					esc(f.json())
				),
			}
		}
	})
}

fn cmd_freeze(a: &[Sx]) -> Result<String, String> {
	// freeze SCHEMA_NODES : fingerprint and regenerated json of a built graph
	let s = schema::schema_from_sx(&a[0])?;
	Ok(match s.freeze() {
		Err(e) => format!("(err {})", esc(&e.to_string())),
		Ok(f) => format!("(ok {} {})", hex(f.rabin_fingerprint()), esc(f.json())),
	})
}

fn run_case(line: &str) -> String {
	let parts = match Sx::parse_many(line) {
		Ok(p) => p,
		Err(e) => return format!("(bad-case {})", esc(&e)),
	};
	if parts.is_empty() {
		return "(empty)".into();
	}
	let cmd = match parts[0].atom() {
		Ok(c) => c.to_owned(),
		Err(e) => return format!("(bad-case {})", esc(&e)),
	};
	let args = &parts[1..];
	let r = std::panic::catch_unwind(std::panic::AssertUnwindSafe(|| match cmd.as_str() {
		"ser" => cmd_ser(args),
		"de" => cmd_de(args),
		"fp" => cmd_fp(args),
		"parse" => cmd_parse(args),
		"freeze" => cmd_freeze(args),
		"hist" => cmd_hist(args),
		"sos" => cmd_sos(args),
		"dealloc" => cmd_dealloc(args),
		"sod" => cmd_sod(args),
		"codecloop" => codecloop::cmd_codecloop(args),
		"rtypes" => rtypes::cmd_rtypes(args),
		"rtypes_schema" => rtypes::cmd_rtypes_schema(args),
		"rtypes_oracle" => rtypes::cmd_rtypes_oracle(args),
		"rt" => {
			// rt SEED N : native round trips of a fixed family of ordinary Rust types
			let seed: u64 = args[0].int()?;
			let n: usize = args[1].int()?;
			Ok(match rt_fixed::run(seed, n) {
				Ok(c) => format!("(ok {c})"),
				Err(e) => { let e: String = e.chars().rev().take(400).collect::<Vec<_>>().into_iter().rev().collect(); format!("(fail {})", esc(&e)) }
			})
		}
		"rtkf" => Ok(rt_kf::run()),
		"cw" => container::cmd_cw(args),
		"cr" => container::cmd_cr(args),
		"crt" => decblock::cmd_crt(args),
		"decode" => decblock::cmd_decode(args),
		"dprobe" => decblock::cmd_dprobe(args),
		"apache_read" => apache::cmd_apache_read(args),
		"apache_write" => apache::cmd_apache_write(args),
		other => Err(format!("unknown command {other}")),
	}));
	match r {
		Ok(Ok(s)) => s,
		Ok(Err(e)) => format!("(bad-case {})", esc(&e)),
		Err(p) => {
			let msg = p
				.downcast_ref::<String>()
				.cloned()
				.or_else(|| p.downcast_ref::<&str>().map(|s| s.to_string()))
				.unwrap_or_else(|| "?".into());
			format!("(panic {})", esc(&msg))
		}
	}
}

fn main() {
	std::panic::set_hook(Box::new(|_| {}));
	let stdin = std::io::stdin();
	let stdout = std::io::stdout();
	let mut out = stdout.lock();
	for line in stdin.lock().lines() {
		let line = match line {
			Ok(l) => l,
			Err(_) => break,
		};
		let res = run_case(&line);
		writeln!(out, "{res}").unwrap();
		out.flush().unwrap();
	}
}
