//! avrodrive: runs cases (one per stdin line) against the real serde_avro_fast
//! crate in /repo and prints one canonical result per line.

mod apache;
mod codecloop;
mod container;
mod decblock;
mod discard;
mod dtarget;
mod io;
mod rt_fixed;
mod rt_kf;
mod gen_types;
mod rtypes;
mod schema;
mod sexp;
mod sval;

use dtarget::{DTarget, DVal};

/// Counting allocator: allocations made while COUNTING is on (per thread)
struct Counting;
thread_local! {
	static COUNTING: std::cell::Cell<bool> = const { std::cell::Cell::new(false) };
	static ALLOCS: std::cell::Cell<(usize, usize)> = const { std::cell::Cell::new((0, 0)) };
}
unsafe impl std::alloc::GlobalAlloc for Counting {
	unsafe fn alloc(&self, l: std::alloc::Layout) -> *mut u8 {
		let _ = COUNTING.try_with(|c| {
			if c.get() {
				let _ = ALLOCS.try_with(|a| {
					let (n, m) = a.get();
					a.set((n + 1, m.max(l.size())));
				});
			}
		});
		std::alloc::System.alloc(l)
	}
	unsafe fn dealloc(&self, p: *mut u8, l: std::alloc::Layout) {
		std::alloc::System.dealloc(p, l)
	}
	unsafe fn realloc(&self, p: *mut u8, l: std::alloc::Layout, new_size: usize) -> *mut u8 {
		let _ = COUNTING.try_with(|c| {
			if c.get() {
				let _ = ALLOCS.try_with(|a| {
					let (n, m) = a.get();
					a.set((n + 1, m.max(new_size)));
				});
			}
		});
		std::alloc::System.realloc(p, l, new_size)
	}
}
#[global_allocator]
static GLOBAL: Counting = Counting;
use sexp::{hex, Sx};
use std::io::{BufRead, Write};

fn esc(s: &str) -> String {
	hex(s.as_bytes())
}

pub fn get_schema(sx: &Sx) -> Result<serde_avro_fast::Schema, String> {
	// (json xTEXT) | (schema ...)
	let (h, a) = sx.head()?;
	match h {
		"json" => a[0]
			.string()?
			.parse::<serde_avro_fast::Schema>()
			.map_err(|e| format!("schema parse: {e}")),
		"schema" => schema::schema_from_sx(sx)?
			.freeze()
			.map_err(|e| format!("schema freeze: {e}")),
		_ => Err("expected (json ..) or (schema ..)".into()),
	}
}

/// Output sinks of `ser` / `sos`: a Vec (default), a writer whose `write` takes at most K bytes per call
/// (`(sink short K)`: short writes, as a socket or pipe may do), a fixed-size slice of N bytes (`(sink fixed N)`:
/// `&mut [u8]`, whose `write` takes what still fits and then answers Ok(0))
enum Sink {
	Vec,
	Short(usize),
	Fixed(usize),
}

/// the optional trailing arguments of `ser` / `sos`: `slow` and `(sink short K)` | `(sink fixed N)` in any order
fn ser_options(a: &[Sx]) -> Result<(bool, Sink), String> {
	let mut slow = false;
	let mut sink = Sink::Vec;
	for o in a {
		if o.atom() == Ok("slow") {
			slow = true;
			continue;
		}
		let (h, sa) = o.head()?;
		if h != "sink" || sa.len() != 2 {
			return Err("expected slow | (sink short K) | (sink fixed N)".into());
		}
		sink = match sa[0].atom()? {
			"short" => Sink::Short(sa[1].int::<usize>()?.max(1)),
			"fixed" => Sink::Fixed(sa[1].int::<usize>()?),
			other => return Err(format!("unknown sink {other}")),
		};
	}
	Ok((slow, sink))
}

/// runs `f` with the chosen sink; -> the bytes that reached the sink when `f` returned Ok
fn with_sink(
	sink: &Sink,
	f: &mut dyn FnMut(&mut dyn std::io::Write) -> Result<(), serde_avro_fast::ser::SerError>,
) -> Result<Vec<u8>, serde_avro_fast::ser::SerError> {
	match *sink {
		Sink::Vec => {
			let mut out: Vec<u8> = Vec::new();
			f(&mut out)?;
			Ok(out)
		}
		Sink::Short(k) => {
			let mut w = io::ScheduledWriter::new(vec![io::WAns::Accept(k)], false);
			f(&mut w)?;
			Ok(w.out)
		}
		Sink::Fixed(n) => {
			let mut buf = vec![0u8; n];
			let left = {
				let mut slice: &mut [u8] = &mut buf[..];
				f(&mut slice)?;
				slice.len()
			};
			buf.truncate(n - left);
			Ok(buf)
		}
	}
}

fn cmd_ser(a: &[Sx]) -> Result<String, String> {
	// ser SCHEMA SVAL [slow] [(sink short K) | (sink fixed N)]
	let schema = get_schema(&a[0])?;
	let v = sval::SVal::from_sx(&a[1])?;
	let mut cfg = serde_avro_fast::ser::SerializerConfig::new(&schema);
	let (slow, sink) = ser_options(&a[2..])?;
	if slow {
		cfg.allow_slow_sequence_to_bytes();
	}
	let res = match sink {
		Sink::Vec => serde_avro_fast::to_datum_vec(&v, &mut cfg),
		_ => with_sink(&sink, &mut |w| serde_avro_fast::to_datum(&v, w, &mut cfg).map(|_| ())),
	};
	Ok(match res {
		Ok(b) => format!("(ok {})", hex(&b)),
		Err(e) => format!("(err {})", esc(&e.to_string())),
	})
}

pub fn de_cfg<'s>(
	schema: &'s serde_avro_fast::Schema,
	cfg: Option<&Sx>,
) -> Result<(serde_avro_fast::de::DeserializerConfig<'s>, Option<usize>), String> {
	let mut c = serde_avro_fast::de::DeserializerConfig::new(schema);
	let mut max_alloc = None;
	if let Some(cfg) = cfg {
		let (h, a) = cfg.head()?;
		if h != "cfg" {
			return Err("expected (cfg max_seq depth max_alloc)".into());
		}
		c.max_seq_size = a[0].int()?;
		c.allowed_depth = a[1].int()?;
		if a.len() > 2 {
			max_alloc = Some(a[2].int()?);
		}
	}
	Ok((c, max_alloc))
}

fn fmt_de(res: Result<DVal, serde_avro_fast::de::DeError>, rest: usize) -> String {
	match res {
		Ok(d) => format!("(ok {d} {rest})"),
		Err(e) => format!(
			"(err {} {})",
			if e.io_error().is_some() { "io" } else { "data" },
			esc(&e.to_string())
		),
	}
}

fn cmd_de(a: &[Sx]) -> Result<String, String> {
	// de SCHEMA TARGET xBYTES MODE [CFG]
	let schema = get_schema(&a[0])?;
	let target = DTarget::from_sx(&a[1])?;
	let bytes = a[2].bytes()?;
	let (cfg, max_alloc) = de_cfg(&schema, a.get(4))?;
	let (mh, ma) = a[3].head()?;
	use serde::de::DeserializeSeed;
	Ok(match mh {
		"slice" => {
			dtarget::INPUT.with(|c| c.set((bytes.as_ptr() as usize, bytes.len())));
			let mut st = serde_avro_fast::de::DeserializerState::with_config(
				serde_avro_fast::de::read::SliceRead::new(&bytes),
				cfg,
			);
			let res = (&target).deserialize(st.deserializer());
			let mut reader = st.into_reader();
			let mut rest = Vec::new();
			std::io::Read::read_to_end(&mut reader, &mut rest).unwrap();
			dtarget::INPUT.with(|c| c.set((0, 0)));
			fmt_de(res, rest.len())
		}
		"chunks" => {
			let plan = ma.iter().map(|s| s.int::<usize>()).collect::<Result<Vec<_>, _>>()?;
			let r = io::ChunkedReader::new(bytes.clone(), plan);
			let mut rr = serde_avro_fast::de::read::ReaderRead::new(r);
			if let Some(m) = max_alloc {
				rr.max_alloc_size = m;
			}
			let mut st = serde_avro_fast::de::DeserializerState::with_config(rr, cfg);
			let res = (&target).deserialize(st.deserializer());
			let reader = st.into_reader().into_inner();
			fmt_de(res, reader.remaining())
		}
		other => return Err(format!("unknown mode {other}")),
	})
}

/// dem SCHEMA TARGET xBYTES MODE CFG COUNT: up to COUNT successive datums decoded through ONE DeserializerState
/// (`state.deserializer()` called again for every datum, the way a stream of datums is read); stops at the first error.
/// -> (ok (ok DVAL)... [(err KIND xMSG)] REST)
fn cmd_dem(a: &[Sx]) -> Result<String, String> {
	let schema = get_schema(&a[0])?;
	let target = DTarget::from_sx(&a[1])?;
	let bytes = a[2].bytes()?;
	let (cfg, max_alloc) = de_cfg(&schema, a.get(4))?;
	let count: usize = a[5].int()?;
	let (mh, ma) = a[3].head()?;
	use serde::de::DeserializeSeed;
	let mut out = String::from("(ok");
	let fmt1 = |res: Result<DVal, serde_avro_fast::de::DeError>| -> (String, bool) {
		match res {
			Ok(d) => (format!(" (ok {d})"), true),
			Err(e) => (format!(" (err {} {})", if e.io_error().is_some() { "io" } else { "data" }, esc(&e.to_string())), false),
		}
	};
	match mh {
		"slice" => {
			dtarget::INPUT.with(|c| c.set((bytes.as_ptr() as usize, bytes.len())));
			let mut st = serde_avro_fast::de::DeserializerState::with_config(serde_avro_fast::de::read::SliceRead::new(&bytes), cfg);
			for _ in 0..count {
				let (s, ok) = fmt1((&target).deserialize(st.deserializer()));
				out.push_str(&s);
				if !ok {
					break;
				}
			}
			let mut reader = st.into_reader();
			let mut rest = Vec::new();
			std::io::Read::read_to_end(&mut reader, &mut rest).unwrap();
			dtarget::INPUT.with(|c| c.set((0, 0)));
			out.push_str(&format!(" {})", rest.len()));
		}
		"chunks" => {
			let plan = ma.iter().map(|s| s.int::<usize>()).collect::<Result<Vec<_>, _>>()?;
			let r = io::ChunkedReader::new(bytes.clone(), plan);
			let mut rr = serde_avro_fast::de::read::ReaderRead::new(r);
			if let Some(m) = max_alloc {
				rr.max_alloc_size = m;
			}
			let mut st = serde_avro_fast::de::DeserializerState::with_config(rr, cfg);
			for _ in 0..count {
				let (s, ok) = fmt1((&target).deserialize(st.deserializer()));
				out.push_str(&s);
				if !ok {
					break;
				}
			}
			let reader = st.into_reader().into_inner();
			out.push_str(&format!(" {})", reader.remaining()));
		}
		other => return Err(format!("unknown mode {other}")),
	}
	Ok(out)
}

/// hist SCHEMA SLOW (job SVAL BUDGET|none)... : consecutive to_datum calls sharing one SerializerConfig;
/// each job has its own sink, which fails after BUDGET bytes
fn cmd_hist(a: &[Sx]) -> Result<String, String> {
	let schema = get_schema(&a[0])?;
	let mut cfg = serde_avro_fast::ser::SerializerConfig::new(&schema);
	if a[1].int::<u8>()? != 0 {
		cfg.allow_slow_sequence_to_bytes();
	}
	let mut out = String::from("(ok");
	for j in &a[2..] {
		let (h, ja) = j.head()?;
		if h != "job" {
			return Err("expected (job SVAL BUDGET)".into());
		}
		let v = sval::SVal::from_sx(&ja[0])?;
		let mut sink = io::ScheduledWriter::new(vec![], false);
		if ja[1].atom()? != "none" {
			sink.budget = Some(ja[1].int::<usize>()?);
		}
		let r = std::panic::catch_unwind(std::panic::AssertUnwindSafe(|| {
			serde_avro_fast::to_datum(&v, &mut sink, &mut cfg).map(|_| ())
		}));
		match r {
			Ok(Ok(())) => out.push_str(&format!(" (ok {})", hex(&sink.out))),
			Ok(Err(e)) => out.push_str(&format!(" (err {})", esc(&e.to_string()))),
			Err(_) => out.push_str(" (panic)"),
		}
	}
	out.push(')');
	Ok(out)
}

thread_local! {
	static CURRENT_TARGET: std::cell::RefCell<Option<DTarget>> = const { std::cell::RefCell::new(None) };
}
/// A `Deserialize` type for APIs that do not take a seed: records the callbacks for the target
/// stored in CURRENT_TARGET
struct Recorded(DVal);
impl<'de> serde::Deserialize<'de> for Recorded {
	fn deserialize<D: serde::Deserializer<'de>>(d: D) -> Result<Self, D::Error> {
		use serde::de::DeserializeSeed;
		let t = CURRENT_TARGET.with(|c| c.borrow().clone()).expect("target set");
		(&t).deserialize(d).map(Recorded)
	}
}

/// sos SCHEMA SVAL [slow] [(sink short K) | (sink fixed N)] : single-object serialization
fn cmd_sos(a: &[Sx]) -> Result<String, String> {
	let schema = get_schema(&a[0])?;
	let v = sval::SVal::from_sx(&a[1])?;
	let mut cfg = serde_avro_fast::ser::SerializerConfig::new(&schema);
	let (slow, sink) = ser_options(&a[2..])?;
	if slow {
		cfg.allow_slow_sequence_to_bytes();
	}
	let res = match sink {
		Sink::Vec => serde_avro_fast::to_single_object_vec(&v, &mut cfg),
		_ => with_sink(&sink, &mut |w| serde_avro_fast::to_single_object(&v, w, &mut cfg).map(|_| ())),
	};
	Ok(match res {
		Ok(b) => format!("(ok {} {})", hex(&b), hex(schema.rabin_fingerprint())),
		Err(e) => format!("(err {})", esc(&e.to_string())),
	})
}

/// sod SCHEMA TARGET xBYTES MODE : single-object deserialization (slice | (chunks ...))
fn cmd_sod(a: &[Sx]) -> Result<String, String> {
	let schema = get_schema(&a[0])?;
	sod_with(&schema, &a[1..])
}

/// single-object deserialization with an already frozen schema; a = TARGET xBYTES MODE
fn sod_with(schema: &serde_avro_fast::Schema, a: &[Sx]) -> Result<String, String> {
	let target = DTarget::from_sx(&a[0])?;
	let bytes = a[1].bytes()?;
	let (mh, ma) = a[2].head()?;
	CURRENT_TARGET.with(|c| *c.borrow_mut() = Some(target));
	let res = match mh {
		"slice" => {
			dtarget::INPUT.with(|c| c.set((bytes.as_ptr() as usize, bytes.len())));
			let r = serde_avro_fast::from_single_object_slice::<Recorded>(&bytes, schema);
			dtarget::INPUT.with(|c| c.set((0, 0)));
			r
		}
		"chunks" => {
			let plan = ma.iter().map(|s| s.int::<usize>()).collect::<Result<Vec<_>, _>>()?;
			serde_avro_fast::from_single_object_reader::<_, Recorded>(io::ChunkedReader::new(bytes.clone(), plan), schema)
		}
		other => return Err(format!("unknown mode {other}")),
	};
	Ok(match res {
		Ok(Recorded(d)) => format!("(ok {d})"),
		Err(e) => format!("(err {} {})", if e.io_error().is_some() { "io" } else { "data" }, esc(&e.to_string())),
	})
}

/// dealloc SCHEMA xBYTES MODE [CFG] : decode into IgnoredAny counting the heap allocations made during the call
/// -> (ok REST ALLOCS MAXSIZE) | (err ALLOCS MAXSIZE)
fn cmd_dealloc(a: &[Sx]) -> Result<String, String> {
	let schema = get_schema(&a[0])?;
	let bytes = a[1].bytes()?;
	let (cfg, max_alloc) = de_cfg(&schema, a.get(3))?;
	let (mh, ma) = a[2].head()?;
	// optional 5th argument: a target driven by the NON-ALLOCATING discarding consumer (discard.rs) instead of IgnoredAny
	let target = match a.get(4) {
		Some(t) => Some(DTarget::from_sx(t)?),
		None => None,
	};
	ALLOCS.with(|c| c.set((0, 0)));
	let out = match mh {
		"slice" if target.is_some() => {
			use serde::de::DeserializeSeed;
			let t = target.as_ref().unwrap();
			let mut st = serde_avro_fast::de::DeserializerState::with_config(serde_avro_fast::de::read::SliceRead::new(&bytes), cfg);
			COUNTING.with(|c| c.set(true));
			let res = discard::Discard(t).deserialize(st.deserializer());
			COUNTING.with(|c| c.set(false));
			let mut reader = st.into_reader();
			let mut rest = Vec::new();
			std::io::Read::read_to_end(&mut reader, &mut rest).unwrap();
			(res.is_ok(), rest.len())
		}
		"slice" => {
			let mut st = serde_avro_fast::de::DeserializerState::with_config(serde_avro_fast::de::read::SliceRead::new(&bytes), cfg);
			COUNTING.with(|c| c.set(true));
			let res: Result<serde::de::IgnoredAny, _> = serde::Deserialize::deserialize(st.deserializer());
			COUNTING.with(|c| c.set(false));
			let mut reader = st.into_reader();
			let mut rest = Vec::new();
			std::io::Read::read_to_end(&mut reader, &mut rest).unwrap();
			(res.is_ok(), rest.len())
		}
		"chunks" => {
			let plan = ma.iter().map(|s| s.int::<usize>()).collect::<Result<Vec<_>, _>>()?;
			let mut rr = serde_avro_fast::de::read::ReaderRead::new(io::ChunkedReader::new(bytes.clone(), plan));
			if let Some(m) = max_alloc {
				rr.max_alloc_size = m;
			}
			let mut st = serde_avro_fast::de::DeserializerState::with_config(rr, cfg);
			COUNTING.with(|c| c.set(true));
			let res: Result<serde::de::IgnoredAny, _> = serde::Deserialize::deserialize(st.deserializer());
			COUNTING.with(|c| c.set(false));
			let r = st.into_reader().into_inner();
			(res.is_ok(), r.remaining())
		}
		other => return Err(format!("unknown mode {other}")),
	};
	let (n, m) = ALLOCS.with(|c| c.get());
	Ok(if out.0 { format!("(ok {} {n} {m})", out.1) } else { format!("(err {n} {m})") })
}

fn cmd_fp(a: &[Sx]) -> Result<String, String> {
	// fp SCHEMA_NODES : canonical form text (hook H1) and fingerprint of a node graph
	let s = schema::schema_from_sx(&a[0])?;
	let pcf = s.verif_canonical_form();
	let fp = s.canonical_form_rabin_fingerprint();
	Ok(match (pcf, fp) {
		(Ok(p), Ok(f)) => format!("(ok {} {})", hex(&f), esc(&p)),
		(Err(e), Err(_)) => format!("(err {})", esc(&e.to_string())),
		(p, f) => format!("(inconsistent {} {})", p.is_ok(), f.is_ok()),
	})
}

fn cmd_jsonread(a: &[Sx]) -> Result<String, String> {
	// jsonread xBYTES : serde_json's reading of a text alone, as the crate uses it for the reported JSON of a parsed schema
	// (serde_transcode from a serde_json Deserializer to the compact Serializer, then Deserializer::end):
	//   (ok xCOMPACT) | (err xMSG)
	// bytes that are a str go through Deserializer::from_str (the crate's path, StrRead), other bytes through from_slice
	// (SliceRead, which checks the UTF-8 of string contents itself)
	let bytes = a[0].bytes()?;
	fn go<'de, R: serde_json::de::Read<'de>>(mut de: serde_json::Deserializer<R>) -> Result<Vec<u8>, serde_json::Error> {
		let mut ser = serde_json::Serializer::new(Vec::new());
		serde_transcode::transcode(&mut de, &mut ser)?;
		de.end()?;
		Ok(ser.into_inner())
	}
	let r = match std::str::from_utf8(&bytes) {
		Ok(s) => go(serde_json::Deserializer::from_str(s)),
		Err(_) => go(serde_json::Deserializer::from_slice(&bytes)),
	};
	Ok(match r {
		Ok(out) => format!("(ok {})", hex(&out)),
		Err(e) => format!("(err {})", esc(&e.to_string())),
	})
}

fn cmd_parse(a: &[Sx]) -> Result<String, String> {
	// parse xJSON : nodes, canonical form, fingerprint, reported json
	// bytes that are not UTF-8 are not a &str: there is no call of SchemaMut::from_str for them -> (not-str)
	let text = match String::from_utf8(a[0].bytes()?) {
		Ok(t) => t,
		Err(_) => return Ok("(not-str)".into()),
	};
	Ok(match text.parse::<serde_avro_fast::schema::SchemaMut>() {
		Err(e) => format!("(err {})", esc(&e.to_string())),
		Ok(s) => {
			let nodes = schema::schema_to_sx(&s);
			let pcf = s.verif_canonical_form().map_err(|e| e.to_string())?;
			let fp = s.canonical_form_rabin_fingerprint().map_err(|e| e.to_string())?;
			match s.freeze() {
				Err(e) => format!("(freeze-err {})", esc(&e.to_string())),
				Ok(f) => format!(
					"(ok {} {} {} {})",
					nodes,
					esc(&pcf),
					hex(&fp),
					esc(f.json())
				),
			}
		}
	})
}

fn cmd_freeze(a: &[Sx]) -> Result<String, String> {
	// freeze SCHEMA_NODES : fingerprint and regenerated json of a built graph
	let s = schema::schema_from_sx(&a[0])?;
	Ok(match s.freeze() {
		Err(e) => format!("(err {})", esc(&e.to_string())),
		Ok(f) => format!("(ok {} {})", hex(f.rabin_fingerprint()), esc(f.json())),
	})
}

/// Writer that refuses to grow past a limit (a regeneration that never ends becomes an error instead of exhausting memory)
struct Bounded {
	out: Vec<u8>,
	limit: usize,
}
impl std::io::Write for Bounded {
	fn write(&mut self, b: &[u8]) -> std::io::Result<usize> {
		if self.out.len() + b.len() > self.limit {
			return Err(std::io::Error::new(std::io::ErrorKind::Other, "output limit"));
		}
		self.out.extend_from_slice(b);
		Ok(b.len())
	}
	fn flush(&mut self) -> std::io::Result<()> {
		Ok(())
	}
}

fn cmd_tojson(a: &[Sx]) -> Result<String, String> {
	// tojson SCHEMA_NODES : the JSON regenerated from a node graph by `impl Serialize for SchemaMut` alone (freeze only gets there
	// after the fingerprint pass has accepted the graph). -> (ok xJSON) | (err xMSG) | (unbounded N): more than 4 MiB were written
	let s = schema::schema_from_sx(&a[0])?;
	let mut w = Bounded { out: Vec::new(), limit: 4 << 20 };
	Ok(match serde_json::to_writer(&mut w, &s) {
		Ok(()) => format!("(ok {})", hex(&w.out)),
		Err(e) if e.is_io() => format!("(unbounded {})", w.out.len()),
		Err(e) => format!("(err {})", esc(&e.to_string())),
	})
}

fn cmd_mutseq(a: &[Sx]) -> Result<String, String> {
	// mutseq START OP... : a history of observations and edits on ONE SchemaMut value
	// START ::= (schema ..) | (json xTEXT)
	// OP ::= fp | json | touch | clone | (set K (node ..)) | (push (node ..)) | freeze | (sos SVAL) | (sod TARGET xBYTES MODE)
	// prints (ok R...) with one R per observing op:
	//   fp     -> (fp xFINGERPRINT xCANONICALFORM) | (fp-err)   fingerprint asked FIRST, then the canonical form text (hook H1)
	//   json   -> (json xTEXT) | (json-err)                      serde_json::to_string(&SchemaMut)
	//   freeze -> (frozen xFINGERPRINT xJSON) | (freeze-err)     of a clone of the current value (the history goes on)
	//   (sos V) -> (sos xMESSAGE) | (sos-err xMSG) | (freeze-err)   single-object encoding of V with a clone of the current value, frozen
	//   (sod T xB MODE) -> (sod RESULT-OF-`sod`) | (freeze-err)     single-object decoding with a clone of the current value, frozen
	use serde_avro_fast::schema::SchemaMut;
	let (h, sa) = a[0].head()?;
	let mut s: SchemaMut = match h {
		"schema" => schema::schema_from_sx(&a[0])?,
		"json" => match sa[0].string()?.parse::<SchemaMut>() {
			Ok(s) => s,
			Err(e) => return Ok(format!("(parse-err {})", esc(&e.to_string()))),
		},
		_ => return Err("expected (json ..) or (schema ..)".into()),
	};
	let mut out = String::from("(ok");
	for op in &a[1..] {
		let (h, oa) = op.head()?;
		match h {
			"fp" => {
				let fp = s.canonical_form_rabin_fingerprint();
				let pcf = s.verif_canonical_form();
				match (fp, pcf) {
					(Ok(f), Ok(p)) => out.push_str(&format!(" (fp {} {})", hex(&f), esc(&p))),
					(Err(_), Err(_)) => out.push_str(" (fp-err)"),
					(f, p) => out.push_str(&format!(" (fp-inconsistent {} {})", f.is_ok(), p.is_ok())),
				}
			}
			"json" => match serde_json::to_string(&s) {
				Ok(t) => out.push_str(&format!(" (json {})", esc(&t))),
				Err(_) => out.push_str(" (json-err)"),
			},
			"touch" => {
				let _ = s.nodes_mut();
			}
			"clone" => {
				s = s.clone();
			}
			"set" => {
				let k: usize = oa[0].int()?;
				let node = schema::node_from_sx(&oa[1])?;
				let nodes = s.nodes_mut();
				if k >= nodes.len() {
					return Err("set: key out of range".into());
				}
				nodes[k] = node;
			}
			"push" => {
				let node = schema::node_from_sx(&oa[0])?;
				s.nodes_mut().push(node);
			}
			"freeze" => match s.clone().freeze() {
				Ok(f) => out.push_str(&format!(" (frozen {} {})", hex(f.rabin_fingerprint()), esc(f.json()))),
				Err(_) => out.push_str(" (freeze-err)"),
			},
			"sos" => match s.clone().freeze() {
				Ok(f) => {
					let v = sval::SVal::from_sx(&oa[0])?;
					match serde_avro_fast::to_single_object_vec(&v, &mut serde_avro_fast::ser::SerializerConfig::new(&f)) {
						Ok(b) => out.push_str(&format!(" (sos {})", hex(&b))),
						Err(e) => out.push_str(&format!(" (sos-err {})", esc(&e.to_string()))),
					}
				}
				Err(_) => out.push_str(" (freeze-err)"),
			},
			"sod" => match s.clone().freeze() {
				Ok(f) => out.push_str(&format!(" (sod {})", sod_with(&f, oa)?)),
				Err(_) => out.push_str(" (freeze-err)"),
			},
			other => return Err(format!("mutseq: unknown op {other}")),
		}
	}
	out.push(')');
	Ok(out)
}

fn run_case(line: &str) -> String {
	let parts = match Sx::parse_many(line) {
		Ok(p) => p,
		Err(e) => return format!("(bad-case {})", esc(&e)),
	};
	if parts.is_empty() {
		return "(empty)".into();
	}
	let cmd = match parts[0].atom() {
		Ok(c) => c.to_owned(),
		Err(e) => return format!("(bad-case {})", esc(&e)),
	};
	let args = &parts[1..];
	let r = std::panic::catch_unwind(std::panic::AssertUnwindSafe(|| match cmd.as_str() {
		"ser" => cmd_ser(args),
		"de" => cmd_de(args),
		"dem" => cmd_dem(args),
		"fp" => cmd_fp(args),
		"parse" => cmd_parse(args),
		"jsonread" => cmd_jsonread(args),
		"freeze" => cmd_freeze(args),
		"mutseq" => cmd_mutseq(args),
		"tojson" => cmd_tojson(args),
		"hist" => cmd_hist(args),
		"sos" => cmd_sos(args),
		"dealloc" => cmd_dealloc(args),
		"sod" => cmd_sod(args),
		"codecloop" => codecloop::cmd_codecloop(args),
		"rtypes" => rtypes::cmd_rtypes(args),
		"rtypes_schema" => rtypes::cmd_rtypes_schema(args),
		"rtypes_oracle" => rtypes::cmd_rtypes_oracle(args),
		"rt" => {
			// rt SEED N : native round trips of a fixed family of ordinary Rust types
			let seed: u64 = args[0].int()?;
			let n: usize = args[1].int()?;
			Ok(match rt_fixed::run(seed, n) {
				Ok(c) => format!("(ok {c})"),
				Err(e) => { let e: String = e.chars().rev().take(400).collect::<Vec<_>>().into_iter().rev().collect(); format!("(fail {})", esc(&e)) }
			})
		}
		"rtskip" => {
			// rtskip SEED N : derived structs declared out of schema order with skip_serializing_if fields
			let seed: u64 = args[0].int()?;
			let n: usize = args[1].int()?;
			Ok(match rt_fixed::run_skip(seed, n) {
				Ok(c) => format!("(ok {c})"),
				Err(e) => { let e: String = e.chars().take(900).collect(); format!("(fail {})", esc(&e)) }
			})
		}
		"rtkf" => Ok(rt_kf::run()),
		"cw" => container::cmd_cw(args),
		"cwh" => container::cmd_cwh(args),
		"blockdec" => container::cmd_blockdec(args),
		"cr" => container::cmd_cr(args),
		"crt" => decblock::cmd_crt(args),
		"decode" => decblock::cmd_decode(args),
		"dprobe" => decblock::cmd_dprobe(args),
		"apache_read" => apache::cmd_apache_read(args),
		"apache_write" => apache::cmd_apache_write(args),
		other => Err(format!("unknown command {other}")),
	}));
	match r {
		Ok(Ok(s)) => s,
		Ok(Err(e)) => format!("(bad-case {})", esc(&e)),
		Err(p) => {
			let msg = p
				.downcast_ref::<String>()
				.cloned()
				.or_else(|| p.downcast_ref::<&str>().map(|s| s.to_string()))
				.unwrap_or_else(|| "?".into());
			format!("(panic {})", esc(&msg))
		}
	}
}

fn main() {
	std::panic::set_hook(Box::new(|_| {}));
	let stdin = std::io::stdin();
	let stdout = std::io::stdout();
	let mut out = stdout.lock();
	for line in stdin.lock().lines() {
		let line = match line {
			Ok(l) => l,
			Err(_) => break,
		};
		dtarget::reset_event_budget();
		let mut res = run_case(&line);
		if dtarget::event_budget_exhausted() {
			// the recording visitor gave up (see dtarget::spend_event): the case is outside what the harness records
			res = "(budget)".to_string();
		}
		writeln!(out, "{res}").unwrap();
		out.flush().unwrap();
	}
}
