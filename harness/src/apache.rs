//! Second implementation for interoperability checks (C06): apache-avro 0.17

use crate::sexp::{hex, Sx};

fn esc(s: &str) -> String {
	hex(s.as_bytes())
}

fn codec(sx: &Sx) -> Result<apache_avro::Codec, String> {
	let (h, _) = sx.head()?;
	Ok(match h {
		"null" => apache_avro::Codec::Null,
		"deflate" => apache_avro::Codec::Deflate,
		"snappy" => apache_avro::Codec::Snappy,
		"zstandard" => apache_avro::Codec::Zstandard,
		"bzip2" => apache_avro::Codec::Bzip2,
		"xz" => apache_avro::Codec::Xz,
		other => return Err(format!("unknown codec {other}")),
	})
}

/// apache_read xFILE -> (ok xSCHEMAJSON xDATUM...) | (err xMSG): every value re-encoded as a datum
pub fn cmd_apache_read(a: &[Sx]) -> Result<String, String> {
	let file = a[0].bytes()?;
	let reader = match apache_avro::Reader::new(&file[..]) {
		Ok(r) => r,
		Err(e) => return Ok(format!("(err {})", esc(&e.to_string()))),
	};
	let schema = reader.writer_schema().clone();
	let mut out = format!("(ok {}", esc(&schema.canonical_form()));
	for v in reader {
		match v {
			Err(e) => return Ok(format!("(err {})", esc(&e.to_string()))),
			Ok(v) => match apache_avro::to_avro_datum(&schema, v) {
				Ok(d) => out.push_str(&format!(" {}", hex(&d))),
				Err(e) => return Ok(format!("(err {})", esc(&e.to_string()))),
			},
		}
	}
	out.push(')');
	Ok(out)
}

/// apache_write xJSON CODEC BLOCKEVERY xDATUM... -> (ok xFILE) | (skip xMSG) (schema/datum not handled by apache-avro)
pub fn cmd_apache_write(a: &[Sx]) -> Result<String, String> {
	let json = a[0].string()?;
	let schema = match apache_avro::Schema::parse_str(&json) {
		Ok(s) => s,
		Err(e) => return Ok(format!("(skip {})", esc(&e.to_string()))),
	};
	let flush_every: usize = a[2].int()?;
	let mut w = apache_avro::Writer::with_codec(&schema, Vec::new(), codec(&a[1])?);
	for (i, d) in a[3..].iter().enumerate() {
		let bytes = d.bytes()?;
		let v = match apache_avro::from_avro_datum(&schema, &mut &bytes[..], None) {
			Ok(v) => v,
			Err(e) => return Ok(format!("(skip {})", esc(&e.to_string()))),
		};
		if let Err(e) = w.append(v) {
			return Ok(format!("(skip {})", esc(&e.to_string())));
		}
		if flush_every > 0 && (i + 1) % flush_every == 0 {
			if let Err(e) = w.flush() {
				return Ok(format!("(skip {})", esc(&e.to_string())));
			}
		}
	}
	match w.into_inner() {
		Ok(f) => Ok(format!("(ok {})", hex(&f))),
		Err(e) => Ok(format!("(skip {})", esc(&e.to_string()))),
	}
}
