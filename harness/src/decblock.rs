//! decblock: the block decompression path of reader/decompression.rs observed through hook H4, plus two
//! commands that talk to the compression libraries directly (without the crate).
//!
//! crt CAP xFILE MODE TARGET MAXCALLS
//!   like `cr` (no FAILAT), with the capacity of the BufReader over the streaming decompressors set to CAP
//!   (0 = the default of std) and the H4 trace taken after every `deserialize_seed_next` call.
//! -> (ok xSCHEMAJSON (meta (xK xV)...) (call ITEM EVENT...)...) | (open-err KIND xMSG)
//!   ITEM  = what `cr` prints for that call: (ok DVAL) | eof | (err io|data xMSG)
//!   EVENT ::= (start SIZE CAP) | (read REQ PROD|err LEFT) | (end BUFFERED READ|err LEFT)
//!
//! decode CODEC xBLOCK        CODEC ::= deflate | bzip2 | xz | zstandard | snappy
//!   the library's own decoder over the whole block, one `read_to_end`
//!   (snappy: snap::raw::Decoder on block[..len-4], the CRC is not looked at)
//! -> (ok xDATA) | (err xPARTIAL)
//!
//! dprobe CODEC xBYTES LIMIT (chunks N...) (wants W...) MAXREADS     CODEC ::= deflate | bzip2 | xz | zstandard
//!   the decoder types the crate uses, built as the crate builds them, over `Take<ChunkedReader>`; reads with
//!   destination lengths W... (the last repeats) until Ok(0) or Err, then two more, at most MAXREADS in total.
//! -> (ok (r WANT PROD|err CONSUMED_TOTAL xOUT)...) | (ctor-err)

use crate::container::{fmt_item, fmt_meta, open_err, MetaOut};
use crate::dtarget::DTarget;
use crate::io::ChunkedReader;
use crate::sexp::{hex, Sx};
use serde_avro_fast::object_container_file_encoding::*;
use std::io::Read;

fn esc(s: &str) -> String {
	hex(s.as_bytes())
}

/// Puts hook H4 back in its default state when the command is left (normally or by a panic)
struct ResetH4;
impl Drop for ResetH4 {
	fn drop(&mut self) {
		verif_h4::set_buf_capacity(None);
		let _ = verif_h4::take_trace();
	}
}

fn opt(v: Option<usize>) -> String {
	match v {
		Some(n) => n.to_string(),
		None => "err".into(),
	}
}

fn fmt_event(e: &verif_h4::Event) -> String {
	match *e {
		verif_h4::Event::BlockStart { block_size, capacity } => format!("(start {block_size} {capacity})"),
		verif_h4::Event::DecoderRead { requested, produced, limit_left } => {
			format!("(read {requested} {} {limit_left})", opt(produced))
		}
		verif_h4::Event::EndCheck { buffered, read, limit_left } => {
			format!("(end {buffered} {} {limit_left})", opt(read))
		}
	}
}

fn plan(ma: &[Sx]) -> Result<Vec<usize>, String> {
	ma.iter().map(|s| s.int::<usize>()).collect()
}

pub fn cmd_crt(a: &[Sx]) -> Result<String, String> {
	let cap: usize = a[0].int()?;
	let file = a[1].bytes()?;
	let (mh, ma) = a[2].head()?;
	let target = DTarget::from_sx(&a[3])?;
	let max_calls: usize = a[4].int()?;
	let _reset = ResetH4;
	verif_h4::set_buf_capacity(if cap == 0 { None } else { Some(cap) });
	let _ = verif_h4::take_trace();
	let mut out = String::new();
	macro_rules! drive {
		($reader:expr, $meta:expr) => {{
			let mut reader = $reader;
			out.push_str(&format!("(ok {} {}", esc(reader.schema().json()), fmt_meta(&$meta)));
			// nothing the opening does goes through the block decompression path
			let _ = verif_h4::take_trace();
			let mut eofs = 0;
			for _ in 0..max_calls {
				let (s, eof) = fmt_item(reader.deserialize_seed_next(&target));
				out.push_str(" (call ");
				out.push_str(&s);
				for e in verif_h4::take_trace() {
					out.push(' ');
					out.push_str(&fmt_event(&e));
				}
				out.push(')');
				if eof {
					eofs += 1;
					if eofs >= 2 {
						break;
					}
				}
			}
			out.push(')');
		}};
	}
	match mh {
		"slice" => {
			crate::dtarget::INPUT.with(|c| c.set((file.as_ptr() as usize, file.len())));
			match Reader::new_and_metadata::<MetaOut>(serde_avro_fast::de::read::SliceRead::new(&file)) {
				Err(e) => out = open_err(e),
				Ok((r, m)) => drive!(r, m),
			}
			crate::dtarget::INPUT.with(|c| c.set((0, 0)));
		}
		"chunks" => {
			let cr = ChunkedReader::new(file.clone(), plan(ma)?);
			match Reader::new_and_metadata::<MetaOut>(serde_avro_fast::de::read::ReaderRead::new(cr)) {
				Err(e) => out = open_err(e),
				Ok((r, m)) => drive!(r, m),
			}
		}
		other => return Err(format!("unknown mode {other}")),
	}
	Ok(out)
}

pub fn cmd_decode(a: &[Sx]) -> Result<String, String> {
	let codec = a[0].atom()?;
	let block = a[1].bytes()?;
	let mut data = Vec::new();
	let ok = match codec {
		"deflate" => flate2::read::DeflateDecoder::new(&block[..]).read_to_end(&mut data).is_ok(),
		"bzip2" => bzip2::read::BzDecoder::new(&block[..]).read_to_end(&mut data).is_ok(),
		"xz" => xz2::read::XzDecoder::new(&block[..]).read_to_end(&mut data).is_ok(),
		"zstandard" => match zstd::stream::read::Decoder::new(&block[..]) {
			Ok(mut d) => d.read_to_end(&mut data).is_ok(),
			Err(_) => false,
		},
		"snappy" => match block.len().checked_sub(4) {
			None => false,
			Some(n) => match snap::raw::Decoder::new().decompress_vec(&block[..n]) {
				Ok(d) => {
					data = d;
					true
				}
				Err(_) => false,
			},
		},
		other => return Err(format!("unknown codec {other}")),
	};
	Ok(format!("({} {})", if ok { "ok" } else { "err" }, hex(&data)))
}

type Src = std::io::Take<ChunkedReader>;
enum Dec {
	Deflate(flate2::bufread::DeflateDecoder<Src>),
	Bzip2(bzip2::bufread::BzDecoder<Src>),
	Xz(xz2::bufread::XzDecoder<Src>),
	Zstandard(zstd::stream::read::Decoder<'static, Src>),
}
impl Dec {
	fn read(&mut self, buf: &mut [u8]) -> std::io::Result<usize> {
		match self {
			Dec::Deflate(d) => d.read(buf),
			Dec::Bzip2(d) => d.read(buf),
			Dec::Xz(d) => d.read(buf),
			Dec::Zstandard(d) => d.read(buf),
		}
	}
	fn limit(&self) -> u64 {
		match self {
			Dec::Deflate(d) => d.get_ref().limit(),
			Dec::Bzip2(d) => d.get_ref().limit(),
			Dec::Xz(d) => d.get_ref().limit(),
			Dec::Zstandard(d) => d.get_ref().limit(),
		}
	}
}

pub fn cmd_dprobe(a: &[Sx]) -> Result<String, String> {
	let codec = a[0].atom()?;
	let bytes = a[1].bytes()?;
	let limit: u64 = a[2].int()?;
	let (ch, ca) = a[3].head()?;
	if ch != "chunks" {
		return Err("expected (chunks N...)".into());
	}
	let (wh, wa) = a[4].head()?;
	if wh != "wants" {
		return Err("expected (wants W...)".into());
	}
	let wants = wa.iter().map(|s| s.int::<usize>()).collect::<Result<Vec<_>, _>>()?;
	if wants.is_empty() || wants.iter().any(|&w| w == 0) {
		return Err("wants: at least one length, each >= 1".into());
	}
	let max_reads: usize = a[5].int()?;
	let src: Src = ChunkedReader::new(bytes, plan(ca)?).take(limit);
	let mut dec = match codec {
		"deflate" => Dec::Deflate(flate2::bufread::DeflateDecoder::new(src)),
		"bzip2" => Dec::Bzip2(bzip2::bufread::BzDecoder::new(src)),
		"xz" => Dec::Xz(xz2::bufread::XzDecoder::new(src)),
		"zstandard" => match zstd::stream::read::Decoder::with_buffer(src) {
			Ok(d) => Dec::Zstandard(d),
			Err(_) => return Ok("(ctor-err)".into()),
		},
		other => return Err(format!("unknown codec {other}")),
	};
	let mut out = String::from("(ok");
	let mut extra: Option<usize> = None;
	for i in 0..max_reads {
		let want = wants[i.min(wants.len() - 1)];
		let mut buf = vec![0u8; want];
		let r = dec.read(&mut buf);
		let consumed = limit - dec.limit();
		let ended = match r {
			Ok(n) => {
				out.push_str(&format!(" (r {want} {n} {consumed} {})", hex(&buf[..n])));
				n == 0
			}
			Err(_) => {
				out.push_str(&format!(" (r {want} err {consumed} x)"));
				true
			}
		};
		match extra.as_mut() {
			Some(k) => {
				*k -= 1;
				if *k == 0 {
					break;
				}
			}
			None => {
				if ended {
					extra = Some(2);
				}
			}
		}
	}
	out.push(')');
	Ok(out)
}
