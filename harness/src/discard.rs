//! A consumer that makes NO heap allocation of its own: it drives the deserializer through the hints of a DTarget (the same
//! dispatch as the recording consumer of dtarget.rs) and throws every value away. Used by `dealloc ... TARGET` to measure
//! the allocations the deserializer itself makes (counting global allocator) when the target type does not allocate:
//! unit-variant enums decoded by name, identifiers, borrowed strings / bytes, numbers, structs, sequences, maps, options.

use crate::dtarget::{DTarget, Variant};
use serde::de::{DeserializeSeed, Deserializer, EnumAccess, Error, IgnoredAny, MapAccess, SeqAccess, VariantAccess, Visitor};

static ANY: DTarget = DTarget::Any;

pub struct Discard<'t>(pub &'t DTarget);

#[derive(Clone, Copy)]
enum Shape<'t> {
	T(&'t DTarget),
	Tuple(&'t [DTarget]),
	Fields(&'t [(&'static str, DTarget)]),
}
struct DV<'t>(Shape<'t>);

impl<'de> DeserializeSeed<'de> for Discard<'_> {
	type Value = ();
	fn deserialize<D: Deserializer<'de>>(self, d: D) -> Result<(), D::Error> {
		let v = DV(Shape::T(self.0));
		match self.0 {
			DTarget::Any => d.deserialize_any(v),
			DTarget::Ignored => IgnoredAny::deserialize(d).map(|_| ()),
			DTarget::Hint(h) => match *h {
				"bool" => d.deserialize_bool(v),
				"i8" => d.deserialize_i8(v),
				"i16" => d.deserialize_i16(v),
				"i32" => d.deserialize_i32(v),
				"i64" => d.deserialize_i64(v),
				"i128" => d.deserialize_i128(v),
				"u8" => d.deserialize_u8(v),
				"u16" => d.deserialize_u16(v),
				"u32" => d.deserialize_u32(v),
				"u64" => d.deserialize_u64(v),
				"u128" => d.deserialize_u128(v),
				"f32" => d.deserialize_f32(v),
				"f64" => d.deserialize_f64(v),
				"char" => d.deserialize_char(v),
				"str" => d.deserialize_str(v),
				"string" => d.deserialize_string(v),
				"bytes" => d.deserialize_bytes(v),
				"bytebuf" => d.deserialize_byte_buf(v),
				"identifier" => d.deserialize_identifier(v),
				"unit" => d.deserialize_unit(v),
				_ => Err(D::Error::custom("discard: unknown hint")),
			},
			DTarget::UnitStruct(n) => d.deserialize_unit_struct(n, v),
			DTarget::NewtypeStruct(n, _) => d.deserialize_newtype_struct(n, v),
			DTarget::Option(_) => d.deserialize_option(v),
			DTarget::Seq(_) => d.deserialize_seq(v),
			DTarget::Tuple(ts) => d.deserialize_tuple(ts.len(), v),
			DTarget::TupleStruct(n, ts) => d.deserialize_tuple_struct(n, ts.len(), v),
			DTarget::Map(_, _) => d.deserialize_map(v),
			DTarget::Struct(n, names, _) => d.deserialize_struct(n, names, v),
			DTarget::Enum(n, names, _) => d.deserialize_enum(n, names, v),
		}
	}
}

use serde::Deserialize;

/// identifies a struct field / an enum variant by name or index: -> position, without allocating
struct Key<'t, T>(&'t [T], fn(&T) -> &'static str);
impl<'de, T> DeserializeSeed<'de> for Key<'_, T> {
	type Value = Option<usize>;
	fn deserialize<D: Deserializer<'de>>(self, d: D) -> Result<Option<usize>, D::Error> {
		d.deserialize_identifier(self)
	}
}
impl<'de, T> Visitor<'de> for Key<'_, T> {
	type Value = Option<usize>;
	fn expecting(&self, f: &mut std::fmt::Formatter) -> std::fmt::Result {
		f.write_str("a field or variant identifier")
	}
	fn visit_str<E: Error>(self, s: &str) -> Result<Option<usize>, E> {
		Ok(self.0.iter().position(|x| (self.1)(x) == s))
	}
	fn visit_bytes<E: Error>(self, s: &[u8]) -> Result<Option<usize>, E> {
		Ok(self.0.iter().position(|x| (self.1)(x).as_bytes() == s))
	}
	fn visit_u64<E: Error>(self, i: u64) -> Result<Option<usize>, E> {
		Ok(if (i as usize) < self.0.len() { Some(i as usize) } else { None })
	}
}

macro_rules! discard_scalar {
	($($m:ident: $t:ty),*) => { $(fn $m<E: Error>(self, _: $t) -> Result<(), E> { Ok(()) })* };
}

impl<'de, 't> Visitor<'de> for DV<'t> {
	type Value = ();
	fn expecting(&self, f: &mut std::fmt::Formatter) -> std::fmt::Result {
		f.write_str("anything (discarding consumer)")
	}
	discard_scalar!(visit_bool: bool, visit_i8: i8, visit_i16: i16, visit_i32: i32, visit_i64: i64, visit_i128: i128, visit_u8: u8,
		visit_u16: u16, visit_u32: u32, visit_u64: u64, visit_u128: u128, visit_f32: f32, visit_f64: f64, visit_char: char,
		visit_str: &str, visit_borrowed_str: &'de str, visit_string: String, visit_bytes: &[u8], visit_borrowed_bytes: &'de [u8],
		visit_byte_buf: Vec<u8>);
	fn visit_unit<E: Error>(self) -> Result<(), E> {
		Ok(())
	}
	fn visit_none<E: Error>(self) -> Result<(), E> {
		Ok(())
	}
	fn visit_some<D: Deserializer<'de>>(self, d: D) -> Result<(), D::Error> {
		match self.0 {
			Shape::T(DTarget::Option(t)) => Discard(t).deserialize(d),
			_ => Discard(&ANY).deserialize(d),
		}
	}
	fn visit_newtype_struct<D: Deserializer<'de>>(self, d: D) -> Result<(), D::Error> {
		match self.0 {
			Shape::T(DTarget::NewtypeStruct(_, t)) => Discard(t).deserialize(d),
			_ => Discard(&ANY).deserialize(d),
		}
	}
	fn visit_seq<A: SeqAccess<'de>>(self, mut seq: A) -> Result<(), A::Error> {
		let fixed: Option<&[DTarget]> = match self.0 {
			Shape::T(DTarget::Tuple(ts)) | Shape::T(DTarget::TupleStruct(_, ts)) => Some(&ts[..]),
			Shape::Tuple(ts) => Some(ts),
			_ => None,
		};
		if let Some(ts) = fixed {
			for (i, t) in ts.iter().enumerate() {
				if seq.next_element_seed(Discard(t))?.is_none() {
					return Err(A::Error::invalid_length(i, &"tuple of the advertised length"));
				}
			}
			return Ok(());
		}
		let item = match self.0 {
			Shape::T(DTarget::Seq(t)) => &**t,
			_ => &ANY,
		};
		while seq.next_element_seed(Discard(item))?.is_some() {}
		Ok(())
	}
	fn visit_map<A: MapAccess<'de>>(self, mut map: A) -> Result<(), A::Error> {
		let fields: Option<&[(&'static str, DTarget)]> = match self.0 {
			Shape::T(DTarget::Struct(_, _, fs)) => Some(&fs[..]),
			Shape::Fields(fs) => Some(fs),
			_ => None,
		};
		if let Some(fs) = fields {
			while let Some(k) = map.next_key_seed(Key(fs, |f: &(&'static str, DTarget)| f.0))? {
				match k {
					Some(i) => map.next_value_seed(Discard(&fs[i].1))?,
					None => {
						map.next_value::<IgnoredAny>()?;
					}
				}
			}
			return Ok(());
		}
		let (kt, vt) = match self.0 {
			Shape::T(DTarget::Map(k, v)) => (&**k, &**v),
			_ => (&ANY, &ANY),
		};
		while map.next_key_seed(Discard(kt))?.is_some() {
			map.next_value_seed(Discard(vt))?;
		}
		Ok(())
	}
	fn visit_enum<A: EnumAccess<'de>>(self, data: A) -> Result<(), A::Error> {
		let Shape::T(DTarget::Enum(_, _, variants)) = self.0 else {
			return Err(A::Error::custom("discard: visit_enum on a target that is not an enum"));
		};
		let (k, access) = data.variant_seed(Key(variants, |v: &Variant| v.name()))?;
		let Some(i) = k else {
			return Err(A::Error::custom("discard: unknown variant"));
		};
		match &variants[i] {
			Variant::Unit(_) => access.unit_variant(),
			Variant::Newtype(_, t) => access.newtype_variant_seed(Discard(t)),
			Variant::Tuple(_, ts) => access.tuple_variant(ts.len(), DV(Shape::Tuple(ts))),
			Variant::Struct(_, names, fs) => access.struct_variant(names, DV(Shape::Fields(fs))),
		}
	}
}
