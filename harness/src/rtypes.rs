//! C20: derived schemas fit their types.
//!
//! `rtypes SEED N`       : for every root type of the generated family (gen_types.rs) and N generated
//!                         values: schema builds, is deterministic, re-parses to the same fingerprint,
//!                         has one definition per fullname, and every value round-trips (slice, reader,
//!                         1-byte-per-refill reader). -> `(ok COUNT)` | `(fail TYPE xDESCRIPTION)`
//! `rtypes_schema`       : per root type the node vector of `T::schema_mut()`:
//!                         `(ok (root xNAME (schema ...)) ... )`
//! `rtypes_oracle`       : the generic-instantiation name suffixes of the family:
//!                         `(ok (xKEY xSUFFIX) ...)`
//!
//! This file holds the hand-written support: a small PRNG, the value generators (`Gen`) and the
//! bit-exact comparison (`BitEq`) for the std types; lib/typegen.py writes the same for the family.

use crate::sexp::{hex, Sx};
use serde_avro_derive::BuildSchema;
use serde_avro_fast::schema::{RegularType, SchemaMut};
use std::collections::{BTreeMap, HashMap};

// ------------------------------------------------------------------ PRNG
pub struct G {
	s: u64,
	/// 0: random; 1: every integer is the maximum of its Rust type (of the Avro type for u64 / usize);
	/// 2: every integer is the minimum of its Rust type
	pub extreme: u8,
}
impl G {
	pub fn new(seed: u64) -> Self {
		G {
			s: seed.wrapping_mul(0x9E3779B97F4A7C15) ^ 0xD1B54A32D192ED03,
			extreme: 0,
		}
	}
	pub fn next(&mut self) -> u64 {
		// splitmix64
		self.s = self.s.wrapping_add(0x9E3779B97F4A7C15);
		let mut z = self.s;
		z = (z ^ (z >> 30)).wrapping_mul(0xBF58476D1CE4E5B9);
		z = (z ^ (z >> 27)).wrapping_mul(0x94D049BB133111EB);
		z ^ (z >> 31)
	}
	pub fn below(&mut self, n: u64) -> u64 {
		if n == 0 {
			0
		} else {
			self.next() % n
		}
	}
	pub fn chance(&mut self, num: u64, den: u64) -> bool {
		self.below(den) < num
	}
	/// length of a collection at the remaining depth `d` (0: always empty)
	pub fn len(&mut self, d: u32) -> usize {
		if d == 0 {
			return 0;
		}
		match self.below(16) {
			0..=3 => 0,
			4..=8 => 1,
			9..=11 => 2,
			12..=13 => 3,
			14 => 5,
			_ => {
				if d >= 4 {
					40
				} else {
					4
				}
			}
		}
	}
}

pub trait Gen: Sized {
	fn gen(g: &mut G, d: u32) -> Self;
}
pub trait BitEq {
	fn beq(&self, o: &Self) -> bool;
}

macro_rules! gen_int {
	($($t:ty),*) => {$(
		impl Gen for $t {
			fn gen(g: &mut G, _d: u32) -> Self {
				match g.extreme {
					1 => return <$t>::MAX,
					2 => return <$t>::MIN,
					_ => {}
				}
				match g.below(12) {
					0 => <$t>::MIN,
					1 => <$t>::MAX,
					2 => 0,
					3 => 1,
					4 => (0 as $t).wrapping_sub(1),
					5 => 63,
					6 => 64,
					7 => (0 as $t).wrapping_sub(64),
					8 => (0 as $t).wrapping_sub(65),
					9 => (g.next() % 200) as $t,
					_ => g.next() as $t,
				}
			}
		}
		impl BitEq for $t { fn beq(&self, o: &Self) -> bool { self == o } }
	)*};
}
gen_int!(i8, i16, i32, i64, u16, u32);

// unsigned integers within the range of the Avro type they map to (long)
impl Gen for u64 {
	fn gen(g: &mut G, _d: u32) -> Self {
		match g.extreme {
			1 => return i64::MAX as u64,
			2 => return 0,
			_ => {}
		}
		match g.below(8) {
			0 => 0,
			1 => i64::MAX as u64,
			2 => 1,
			3 => u32::MAX as u64 + 1,
			4 => g.next() % 200,
			_ => g.next() & (i64::MAX as u64),
		}
	}
}
impl BitEq for u64 {
	fn beq(&self, o: &Self) -> bool {
		self == o
	}
}
impl Gen for usize {
	fn gen(g: &mut G, d: u32) -> Self {
		u64::gen(g, d) as usize
	}
}
impl BitEq for usize {
	fn beq(&self, o: &Self) -> bool {
		self == o
	}
}
impl Gen for bool {
	fn gen(g: &mut G, _d: u32) -> Self {
		g.below(2) == 1
	}
}
impl BitEq for bool {
	fn beq(&self, o: &Self) -> bool {
		self == o
	}
}
impl Gen for () {
	fn gen(_g: &mut G, _d: u32) -> Self {}
}
impl BitEq for () {
	fn beq(&self, _o: &Self) -> bool {
		true
	}
}
impl Gen for f32 {
	fn gen(g: &mut G, _d: u32) -> Self {
		f32::from_bits(match g.below(14) {
			0 => 0,
			1 => 0x8000_0000,
			2 => 0x7FC0_0000,          // quiet NaN
			3 => 0x7FA0_0001,          // signalling NaN with payload
			4 => 0xFFC1_2345,          // negative NaN with payload
			5 => 0x7F80_0000,          // +inf
			6 => 0xFF80_0000,          // -inf
			7 => 0x0000_0001,          // smallest subnormal
			8 => 0x0080_0000,          // MIN_POSITIVE
			9 => 0x7F7F_FFFF,          // MAX
			10 => 0x3F80_0000,         // 1.0
			_ => g.next() as u32,
		})
	}
}
impl BitEq for f32 {
	fn beq(&self, o: &Self) -> bool {
		self.to_bits() == o.to_bits()
	}
}
impl Gen for f64 {
	fn gen(g: &mut G, _d: u32) -> Self {
		f64::from_bits(match g.below(14) {
			0 => 0,
			1 => 0x8000_0000_0000_0000,
			2 => 0x7FF8_0000_0000_0000,
			3 => 0x7FF4_0000_0000_0001,
			4 => 0xFFF8_1234_5678_9ABC,
			5 => 0x7FF0_0000_0000_0000,
			6 => 0xFFF0_0000_0000_0000,
			7 => 1,
			8 => 0x0010_0000_0000_0000,
			9 => 0x7FEF_FFFF_FFFF_FFFF,
			10 => 0x3FF0_0000_0000_0000,
			_ => g.next(),
		})
	}
}
impl BitEq for f64 {
	fn beq(&self, o: &Self) -> bool {
		self.to_bits() == o.to_bits()
	}
}
impl Gen for String {
	fn gen(g: &mut G, _d: u32) -> Self {
		match g.below(10) {
			0 | 1 => String::new(),
			2 => "a".into(),
			3 => "Null".into(),
			4 => "h\u{e9}llo \u{4e16}\u{754c} \u{1F600}\0\"\\".into(),
			5 => {
				// long: beyond one 1-byte length varint and beyond small buffers
				let n = [63usize, 64, 127, 128, 300, 5000][g.below(6) as usize];
				(0..n).map(|i| (b'a' + ((i as u64 + g.s) % 26) as u8) as char).collect()
			}
			_ => {
				let n = g.below(12) as usize;
				(0..n).map(|_| char::from_u32(32 + g.below(95) as u32).unwrap()).collect()
			}
		}
	}
}
impl BitEq for String {
	fn beq(&self, o: &Self) -> bool {
		self == o
	}
}
impl<T: Gen> Gen for Option<T> {
	fn gen(g: &mut G, d: u32) -> Self {
		if d == 0 || g.below(3) == 0 {
			None
		} else {
			Some(T::gen(g, d - 1))
		}
	}
}
impl<T: BitEq> BitEq for Option<T> {
	fn beq(&self, o: &Self) -> bool {
		match (self, o) {
			(None, None) => true,
			(Some(a), Some(b)) => a.beq(b),
			_ => false,
		}
	}
}
impl<T: Gen> Gen for Vec<T> {
	fn gen(g: &mut G, d: u32) -> Self {
		let n = g.len(d);
		(0..n).map(|_| T::gen(g, d.saturating_sub(1))).collect()
	}
}
impl<T: BitEq> BitEq for Vec<T> {
	fn beq(&self, o: &Self) -> bool {
		self.len() == o.len() && self.iter().zip(o).all(|(a, b)| a.beq(b))
	}
}
fn gen_key(g: &mut G, i: usize) -> String {
	match g.below(6) {
		0 if i == 0 => String::new(),
		1 => format!("k{i}"),
		2 => format!("{}\u{e9}{i}", "x".repeat(g.below(80) as usize)),
		_ => format!("{}_{i}", String::gen(g, 0).chars().take(6).collect::<String>()),
	}
}
impl<T: Gen> Gen for HashMap<String, T> {
	fn gen(g: &mut G, d: u32) -> Self {
		let n = g.len(d);
		(0..n).map(|i| (gen_key(g, i), T::gen(g, d.saturating_sub(1)))).collect()
	}
}
impl<T: BitEq> BitEq for HashMap<String, T> {
	fn beq(&self, o: &Self) -> bool {
		self.len() == o.len() && self.iter().all(|(k, v)| o.get(k).map_or(false, |w| v.beq(w)))
	}
}
impl<T: Gen> Gen for BTreeMap<String, T> {
	fn gen(g: &mut G, d: u32) -> Self {
		let n = g.len(d);
		(0..n).map(|i| (gen_key(g, i), T::gen(g, d.saturating_sub(1)))).collect()
	}
}
impl<T: BitEq> BitEq for BTreeMap<String, T> {
	fn beq(&self, o: &Self) -> bool {
		self.len() == o.len() && self.iter().all(|(k, v)| o.get(k).map_or(false, |w| v.beq(w)))
	}
}
macro_rules! gen_ptr {
	($($p:ident),*) => {$(
		impl<T: Gen> Gen for $p<T> { fn gen(g: &mut G, d: u32) -> Self { $p::new(T::gen(g, d)) } }
		impl<T: BitEq> BitEq for $p<T> { fn beq(&self, o: &Self) -> bool { (**self).beq(&**o) } }
	)*};
}
use std::{rc::Rc, sync::Arc};
gen_ptr!(Box, Rc, Arc);
impl<T: Gen> Gen for std::cell::RefCell<T> {
	fn gen(g: &mut G, d: u32) -> Self {
		std::cell::RefCell::new(T::gen(g, d))
	}
}
impl<T: BitEq> BitEq for std::cell::RefCell<T> {
	fn beq(&self, o: &Self) -> bool {
		self.borrow().beq(&*o.borrow())
	}
}

// ---- types that only occur in attribute positions (no `Gen` through the element type)
pub fn gen_bytes(g: &mut G, _d: u32) -> Vec<u8> {
	let n = match g.below(8) {
		0 | 1 => 0,
		2 => 1,
		3 => [63usize, 64, 200, 3000][g.below(4) as usize],
		_ => g.below(20) as usize,
	};
	(0..n).map(|_| if g.below(4) == 0 { [0u8, 0xFF, 0x80, 0x7F][g.below(4) as usize] } else { g.next() as u8 }).collect()
}
pub fn gen_opt_bytes(g: &mut G, d: u32) -> Option<Vec<u8>> {
	if d == 0 || g.below(3) == 0 {
		None
	} else {
		Some(gen_bytes(g, d))
	}
}
pub fn gen_arr<const N: usize>(g: &mut G, _d: u32) -> [u8; N] {
	let mut a = [0u8; N];
	match g.below(4) {
		0 => {}
		1 => a = [0xFF; N],
		_ => {
			for b in a.iter_mut() {
				*b = g.next() as u8
			}
		}
	}
	a
}
pub fn gen_opt_arr<const N: usize>(g: &mut G, d: u32) -> Option<[u8; N]> {
	if d == 0 || g.below(3) == 0 {
		None
	} else {
		Some(gen_arr::<N>(g, d))
	}
}
impl BitEq for u8 {
	fn beq(&self, o: &Self) -> bool {
		self == o
	}
}
impl<const N: usize> BitEq for [u8; N] {
	fn beq(&self, o: &Self) -> bool {
		self == o
	}
}
/// A decimal that is exactly representable under decimal(scale) in at most `max_bytes` two's
/// complement bytes (0 = the `bytes` representation: up to rust_decimal's 96 bits) and `precision` digits
pub fn gen_decimal(g: &mut G, scale: u32, max_bytes: u32, precision: u32) -> rust_decimal::Decimal {
	let bits = if max_bytes == 0 { 95 } else { (8 * max_bytes - 1).min(95) };
	let max: i128 = ((1i128 << bits) - 1).min(10i128.pow(precision) - 1);
	let m: i128 = match g.below(10) {
		0 => 0,
		1 => 1,
		2 => -1,
		3 => max,
		4 => -max,
		5 => 127.min(max),
		6 => 128.min(max),
		7 => (-129i128).max(-max),
		_ => {
			let r = ((g.next() as i128) << 64 | g.next() as i128) & max;
			if g.below(2) == 0 {
				r
			} else {
				-r
			}
		}
	};
	rust_decimal::Decimal::from_i128_with_scale(m, scale)
}
impl BitEq for rust_decimal::Decimal {
	fn beq(&self, o: &Self) -> bool {
		self.mantissa() == o.mantissa() && self.scale() == o.scale()
	}
}
impl<A: BitEq, B: BitEq, C: BitEq> BitEq for (A, B, C) {
	fn beq(&self, o: &Self) -> bool {
		self.0.beq(&o.0) && self.1.beq(&o.1) && self.2.beq(&o.2)
	}
}
impl<A: Gen, B: Gen, C: Gen> Gen for (A, B, C) {
	fn gen(g: &mut G, d: u32) -> Self {
		(A::gen(g, d), B::gen(g, d), C::gen(g, d))
	}
}

// ------------------------------------------------------------------ checks
fn named_fullnames(s: &SchemaMut) -> Vec<String> {
	s.nodes()
		.iter()
		.filter_map(|n| match &n.type_ {
			RegularType::Record(r) => Some(r.name.fully_qualified_name().to_owned()),
			RegularType::Enum(e) => Some(e.name.fully_qualified_name().to_owned()),
			RegularType::Fixed(f) => Some(f.name.fully_qualified_name().to_owned()),
			_ => None,
		})
		.collect()
}

pub const DEPTH: u32 = 4;
thread_local! {
	pub static APACHE_REJECTS: std::cell::Cell<usize> = const { std::cell::Cell::new(0) };
}

pub type Fail = (String, &'static str, String); // (type label, class, description)

/// The schema-level part of the property for one root type. On failure: (class, description) and the
/// frozen schema if there is one (so that the values can still be checked).
pub fn check_schema<T: BuildSchema>() -> (Option<serde_avro_fast::Schema>, Vec<(&'static str, String)>) {
	let mut fails: Vec<(&'static str, String)> = Vec::new();
	let m1 = T::schema_mut();
	let m2 = T::schema_mut();
	let sx1 = crate::schema::schema_to_sx(&m1);
	if sx1 != crate::schema::schema_to_sx(&m2) {
		fails.push(("nondeterministic", "schema_mut() is not deterministic (node vectors differ)".into()));
	}
	let j1 = serde_json::to_string(&m1);
	let j2 = serde_json::to_string(&m2);
	match (&j1, &j2) {
		(Ok(a), Ok(b)) if a != b => fails.push(("nondeterministic", "schema JSON is not deterministic".into())),
		(Err(e), _) | (_, Err(e)) => fails.push(("json", format!("schema_mut does not serialize to JSON: {e}: nodes {sx1}"))),
		_ => {}
	}
	let mut names = named_fullnames(&m1);
	let root_name = names.first().filter(|_| m1.nodes().first().map_or(false, |n| n.type_.name().is_some())).cloned();
	names.sort();
	let mut dup_root_only = false;
	for w in names.windows(2) {
		if w[0] == w[1] {
			let root = Some(&w[0]) == root_name.as_ref() && names.iter().filter(|n| **n == w[0]).count() == 2;
			dup_root_only = dup_root_only || root;
			fails.push((
				if root { "recursive-root-duplicate" } else { "duplicate-fullname" },
				format!("two definitions for the fullname {} in {}", w[0], j1.as_deref().unwrap_or(&sx1)),
			));
		}
	}
	let fp1 = match m1.canonical_form_rabin_fingerprint() {
		Ok(f) => Some(f),
		Err(e) => {
			fails.push(("fingerprint", format!("fingerprint: {e}: nodes {sx1}")));
			None
		}
	};
	let s1 = match T::schema() {
		Ok(s) => s,
		Err(e) => {
			fails.push(("schema-err", format!("schema() failed: {e}: nodes {sx1}")));
			return (None, fails);
		}
	};
	match T::schema() {
		Ok(s2) => {
			if s1.rabin_fingerprint() != s2.rabin_fingerprint() || s1.json() != s2.json() {
				fails.push(("nondeterministic", "schema() is not deterministic".into()));
			}
		}
		Err(e) => fails.push(("nondeterministic", format!("second schema() failed: {e}"))),
	}
	if fp1.map_or(false, |f| *s1.rabin_fingerprint() != f) {
		fails.push(("fingerprint", "fingerprint of schema() differs from that of schema_mut()".into()));
	}
	// the JSON is a valid Avro schema document that denotes the same schema
	let mut texts = vec![("Schema::json()", s1.json().to_owned())];
	if let Ok(j) = &j1 {
		texts.push(("schema_mut JSON", j.clone()));
	}
	for (what, text) in texts {
		let dupclass = if dup_root_only { "recursive-root-duplicate" } else { "reparse" };
		let re: SchemaMut = match text.parse() {
			Ok(re) => re,
			Err(e) => {
				fails.push((dupclass, format!("{what} does not re-parse: {e}: {text}")));
				continue;
			}
		};
		match re.canonical_form_rabin_fingerprint() {
			Ok(fp) if Some(fp) == fp1 => {}
			Ok(_) => fails.push(("reparse", format!("{what} re-parses to a different schema (fingerprint): {text}"))),
			Err(e) => fails.push(("reparse", format!("{what} re-parsed: fingerprint: {e}"))),
		}
		let mut n2 = named_fullnames(&re);
		n2.sort();
		if n2 != names {
			fails.push((dupclass, format!("{what} re-parses to different definitions {n2:?} vs {names:?}")));
		}
		if let Err(e) = re.freeze() {
			fails.push(("reparse", format!("{what} re-parsed does not freeze: {e}")));
		}
	}
	// does the independent implementation accept it as well? (counted, not a failure: the written JSON
	// is the subject of C07/C09; apache-avro 0.17 does not read the ".Name" spelling of a name in the null namespace)
	if apache_avro::Schema::parse_str(s1.json()).is_err() {
		APACHE_REJECTS.with(|c| c.set(c.get() + 1));
	}
	(Some(s1), fails)
}

pub fn check_type<T>(name: &str, g: &mut G, n: usize, fails: &mut Vec<Fail>) -> usize
where
	T: BuildSchema + serde::Serialize + serde::de::DeserializeOwned + Gen + BitEq + std::fmt::Debug,
{
	let (schema, sf) = check_schema::<T>();
	for (class, m) in sf {
		fails.push((name.to_owned(), class, m));
	}
	let schema = match schema {
		Some(s) => s,
		None => return 0,
	};
	let mut count = 0;
	for i in 0..n {
		// the first values are the shallow ones (depth 0: every collection empty, every option None)
		let d = if i == 0 { 0 } else if i <= 3 { 1 } else { 1 + (g.below(DEPTH as u64) as u32) };
		// values 2 and 3: every integer (also under a logical-type attribute) at the maximum / minimum of its Rust type
		g.extreme = if i == 2 { 1 } else if i == 3 { 2 } else { 0 };
		let v = T::gen(g, d);
		g.extreme = 0;
		match check_value(&v, &schema) {
			Ok(()) => count += 1,
			Err(m) => {
				let mut dv = format!("{v:?}");
				if dv.len() > 1500 {
					dv.truncate(1500);
				}
				fails.push((name.to_owned(), "value", format!("{m}; value {dv}; schema {}", schema.json())));
				break;
			}
		}
	}
	count
}

fn check_value<T>(v: &T, schema: &serde_avro_fast::Schema) -> Result<(), String>
where
	T: serde::Serialize + serde::de::DeserializeOwned + BitEq + std::fmt::Debug,
{
	let mut cfg = serde_avro_fast::ser::SerializerConfig::new(schema);
	let bytes = serde_avro_fast::to_datum_vec(v, &mut cfg).map_err(|e| format!("to_datum_vec failed: {e}"))?;
	// a reused configuration gives the same bytes
	let again = serde_avro_fast::to_datum_vec(v, &mut cfg).map_err(|e| format!("second to_datum_vec failed: {e}"))?;
	if again != bytes {
		return Err("second to_datum_vec gives other bytes".into());
	}
	let back: T = serde_avro_fast::from_datum_slice(&bytes, schema).map_err(|e| format!("from_datum_slice failed: {e} on {}", hex(&bytes)))?;
	if !back.beq(v) {
		return Err(format!("from_datum_slice gives another value {back:?}"));
	}
	let back: T = serde_avro_fast::from_datum_reader(&bytes[..], schema).map_err(|e| format!("from_datum_reader failed: {e} on {}", hex(&bytes)))?;
	if !back.beq(v) {
		return Err(format!("from_datum_reader gives another value {back:?}"));
	}
	let back: T = serde_avro_fast::from_datum_reader(crate::io::ChunkedReader::new(bytes.clone(), vec![1]), schema)
		.map_err(|e| format!("from_datum_reader (1 byte per refill) failed: {e} on {}", hex(&bytes)))?;
	if !back.beq(v) {
		return Err(format!("from_datum_reader (1 byte per refill) gives another value {back:?}"));
	}
	// the whole input is consumed
	let mut st = serde_avro_fast::de::DeserializerState::from_slice(&bytes, schema);
	let _: T = serde::Deserialize::deserialize(st.deserializer()).map_err(|e| format!("deserializer failed: {e}"))?;
	let mut rest = Vec::new();
	std::io::Read::read_to_end(&mut st.into_reader(), &mut rest).unwrap();
	if !rest.is_empty() {
		return Err(format!("{} bytes left unread after decoding", rest.len()));
	}
	Ok(())
}

/// A type that borrows (references / slices / str): its schema must be the node vector of the owned
/// twin, and serializing the borrowed view must give the bytes of the owned value.
pub fn check_ref_twin<O, R>(name: &str, owned: &O, borrowed: &R) -> Result<(), String>
where
	O: BuildSchema + serde::Serialize + std::fmt::Debug,
	R: BuildSchema + serde::Serialize,
{
	let _ = name;
	let a = crate::schema::schema_to_sx(&O::schema_mut());
	let b = crate::schema::schema_to_sx(&R::schema_mut());
	if a != b {
		return Err(format!("schema of the borrowing twin differs: {a} vs {b}"));
	}
	let so = O::schema().map_err(|e| format!("schema(): {e}"))?;
	let sr = R::schema().map_err(|e| format!("schema() of the borrowing twin: {e}"))?;
	let bo = serde_avro_fast::to_datum_vec(owned, &mut serde_avro_fast::ser::SerializerConfig::new(&so)).map_err(|e| format!("to_datum_vec: {e}"))?;
	let br = serde_avro_fast::to_datum_vec(borrowed, &mut serde_avro_fast::ser::SerializerConfig::new(&sr))
		.map_err(|e| format!("to_datum_vec of the borrowing twin: {e}"))?;
	if bo != br {
		return Err(format!("borrowing twin serializes differently for {owned:?}"));
	}
	Ok(())
}

pub fn suffix_of<T: BuildSchema + ?Sized>() -> String {
	let mut s = String::new();
	serde_avro_derive::hash_type_id(&mut s, std::any::TypeId::of::<T::TypeLookup>());
	s
}

pub fn cmd_rtypes(a: &[Sx]) -> Result<String, String> {
	let seed: u64 = a[0].int()?;
	let n: usize = a[1].int()?;
	APACHE_REJECTS.with(|c| c.set(0));
	let mut fails: Vec<Fail> = Vec::new();
	let count = crate::gen_types::run_family(seed, n, &mut fails);
	let mut out = format!(
		"({} {count} (family {}) (apache-rejects {})",
		if fails.is_empty() { "ok" } else { "fail" },
		crate::gen_types::FAMILY_SEED,
		APACHE_REJECTS.with(|c| c.get())
	);
	for (ty, class, m) in fails {
		out.push_str(&format!(" (f {} {class} {})", hex(ty.as_bytes()), hex(m.as_bytes())));
	}
	out.push(')');
	Ok(out)
}

pub fn cmd_rtypes_schema(_a: &[Sx]) -> Result<String, String> {
	let mut out = String::from("(ok");
	for (name, s) in crate::gen_types::schemas() {
		out.push_str(&format!(" (root {} {})", hex(name.as_bytes()), crate::schema::schema_to_sx(&s)));
	}
	out.push(')');
	Ok(out)
}

pub fn cmd_rtypes_oracle(_a: &[Sx]) -> Result<String, String> {
	let mut out = format!("(ok (family {})", crate::gen_types::FAMILY_SEED);
	for (k, v) in crate::gen_types::inst_oracle() {
		out.push_str(&format!(" ({} {})", hex(k.as_bytes()), hex(v.as_bytes())));
	}
	out.push(')');
	Ok(out)
}
