//! `rt SEED N`: native round trips of a fixed family of ordinary Rust data types (derive
//! Serialize/Deserialize) under hand-written schemas: structs, enums as unions, Option, maps, Vec,
//! tuples on arrays, newtype structs, recursive types, borrowed &str / &[u8] pointing into the input; an enum with a
//! symbol called `Null` under Option / Vec / map; optional fields left out by the Serialize impl (skip_serializing_if)
//! at every position; a union of named types that share their short name; Option<enum> over unions that are not
//! [null,T] (two non-null branches, one branch, three or more branches with or without null); enums as unions with
//! tuple variants over array branches, struct variants over record branches, newtype variants over maps, each followed
//! by further fields / elements.
//! Values come from a small deterministic generator (boundary values first). Every value is also serialized through
//! writers that take at most k bytes per `write` call and into exact-size / too-small slices (same bytes / Err).

use serde::{Deserialize, Serialize};
use std::collections::BTreeMap;

pub struct Rng(u64);
impl Rng {
	pub fn new(seed: u64) -> Self {
		Rng(seed.wrapping_mul(0x9E3779B97F4A7C15) ^ 0xD1B54A32D192ED03)
	}
	pub fn next(&mut self) -> u64 {
		self.0 = self.0.wrapping_add(0x9E3779B97F4A7C15);
		let mut z = self.0;
		z = (z ^ (z >> 30)).wrapping_mul(0xBF58476D1CE4E5B9);
		z = (z ^ (z >> 27)).wrapping_mul(0x94D049BB133111EB);
		z ^ (z >> 31)
	}
	pub fn below(&mut self, n: u64) -> u64 {
		self.next() % n.max(1)
	}
	pub fn i32(&mut self) -> i32 {
		const B: [i32; 12] = [0, 1, -1, 63, 64, -64, -65, 8191, 8192, i32::MAX, i32::MIN, 1 << 20];
		if self.below(3) == 0 {
			B[self.below(12) as usize]
		} else {
			self.next() as i32 >> self.below(32)
		}
	}
	pub fn i64(&mut self) -> i64 {
		const B: [i64; 12] = [0, 1, -1, 63, 64, -64, -65, i64::MAX, i64::MIN, 1 << 62, -(1 << 62) - 1, 1 << 35];
		if self.below(3) == 0 {
			B[self.below(12) as usize]
		} else {
			self.next() as i64 >> self.below(64)
		}
	}
	pub fn f32(&mut self) -> f32 {
		const B: [u32; 8] = [0, 0x8000_0000, 0x7F80_0000, 0xFF80_0000, 0x7FC0_0000, 0x7F80_0001, 0xFFFF_FFFF, 1];
		f32::from_bits(if self.below(3) == 0 { B[self.below(8) as usize] } else { self.next() as u32 })
	}
	pub fn f64(&mut self) -> f64 {
		const B: [u64; 6] = [0, 1 << 63, 0x7FF0_0000_0000_0000, 0x7FF8_0000_0000_0001, u64::MAX, 1];
		f64::from_bits(if self.below(3) == 0 { B[self.below(6) as usize] } else { self.next() })
	}
	pub fn string(&mut self) -> String {
		const P: [&str; 8] = ["", "a", "héllo", "中文", "😀", " ", "\u{0}", "line\nbreak"];
		let mut s = String::new();
		let n = [0, 1, 2, 5, 63, 64, 200][self.below(7) as usize];
		for _ in 0..self.below(n + 1) {
			s.push_str(P[self.below(8) as usize]);
		}
		s
	}
	pub fn bytes(&mut self) -> Vec<u8> {
		let n = [0, 1, 2, 16, 127, 128, 300][self.below(7) as usize];
		(0..self.below(n + 1)).map(|_| self.next() as u8).collect()
	}
}

// floats compared by bit pattern
#[derive(Serialize, Deserialize, Debug, Clone, Copy)]
#[serde(transparent)]
pub struct F32(f32);
impl PartialEq for F32 {
	fn eq(&self, o: &Self) -> bool {
		self.0.to_bits() == o.0.to_bits()
	}
}
#[derive(Serialize, Deserialize, Debug, Clone, Copy)]
#[serde(transparent)]
pub struct F64(f64);
impl PartialEq for F64 {
	fn eq(&self, o: &Self) -> bool {
		self.0.to_bits() == o.0.to_bits()
	}
}

#[derive(Serialize, Deserialize, Debug, PartialEq, Clone)]
struct Prim {
	a: i32,
	b: i64,
	c: F32,
	d: F64,
	e: bool,
	s: String,
	#[serde(with = "serde_bytes")]
	by: Vec<u8>,
}
const PRIM: &str = r#"{"type":"record","name":"Prim","fields":[{"name":"a","type":"int"},{"name":"b","type":"long"},{"name":"c","type":"float"},{"name":"d","type":"double"},{"name":"e","type":"boolean"},{"name":"s","type":"string"},{"name":"by","type":"bytes"}]}"#;
fn prim(r: &mut Rng) -> Prim {
	Prim { a: r.i32(), b: r.i64(), c: F32(r.f32()), d: F64(r.f64()), e: r.below(2) == 1, s: r.string(), by: r.bytes() }
}

#[derive(Serialize, Deserialize, Debug, PartialEq, Clone)]
enum Suit {
	Hearts,
	Spades,
	Clubs,
}
#[derive(Serialize, Deserialize, Debug, PartialEq, Clone)]
struct Id(i64);
#[derive(Serialize, Deserialize, Debug, PartialEq, Clone)]
struct Circle {
	r: F64,
}
#[derive(Serialize, Deserialize, Debug, PartialEq, Clone)]
struct Rect {
	w: i32,
	h: i32,
}
#[derive(Serialize, Deserialize, Debug, PartialEq, Clone)]
enum Shape {
	Null,
	Circle(Circle),
	Rect(Rect),
	Int(i32),
	String(String),
	Array(Vec<i64>),
}
#[derive(Serialize, Deserialize, Debug, PartialEq, Clone)]
struct Pair(i32, i32);
#[derive(Serialize, Deserialize, Debug, PartialEq, Clone)]
struct Nested {
	id: Id,
	inner: Prim,
	opt: Option<Prim>,
	opt2: Option<i32>,
	list: Vec<Rect>,
	map: BTreeMap<String, Suit>,
	shape: Shape,
	shapes: Vec<Shape>,
	tup: (i32, i32),
	pair: Pair,
	after: i32,
	suit: Suit,
	unit: (),
}
fn nested_schema() -> String {
	format!(
		r#"{{"type":"record","name":"Nested","fields":[{{"name":"id","type":"long"}},{{"name":"inner","type":{PRIM}}},{{"name":"opt","type":["null","Prim"]}},{{"name":"opt2","type":["int","null"]}},{{"name":"list","type":{{"type":"array","items":{{"type":"record","name":"Rect","fields":[{{"name":"w","type":"int"}},{{"name":"h","type":"int"}}]}}}}}},{{"name":"map","type":{{"type":"map","values":{{"type":"enum","name":"Suit","symbols":["Hearts","Spades","Clubs"]}}}}}},{{"name":"shape","type":["null",{{"type":"record","name":"Circle","fields":[{{"name":"r","type":"double"}}]}},"Rect","int","string",{{"type":"array","items":"long"}}]}},{{"name":"shapes","type":{{"type":"array","items":["null","Circle","Rect","int","string",{{"type":"array","items":"long"}}]}}}},{{"name":"tup","type":{{"type":"array","items":"int"}}}},{{"name":"pair","type":{{"type":"array","items":"int"}}}},{{"name":"after","type":"int"}},{{"name":"suit","type":"Suit"}},{{"name":"unit","type":"null"}}]}}"#
	)
}
fn suit(r: &mut Rng) -> Suit {
	[Suit::Hearts, Suit::Spades, Suit::Clubs][r.below(3) as usize].clone()
}
fn shape(r: &mut Rng) -> Shape {
	match r.below(6) {
		0 => Shape::Null,
		1 => Shape::Circle(Circle { r: F64(r.f64()) }),
		2 => Shape::Rect(Rect { w: r.i32(), h: r.i32() }),
		3 => Shape::Int(r.i32()),
		4 => Shape::String(r.string()),
		_ => Shape::Array((0..r.below(4)).map(|_| r.i64()).collect()),
	}
}
fn nested(r: &mut Rng) -> Nested {
	Nested {
		id: Id(r.i64()),
		inner: prim(r),
		opt: if r.below(2) == 0 { None } else { Some(prim(r)) },
		opt2: if r.below(2) == 0 { None } else { Some(r.i32()) },
		list: (0..r.below(4)).map(|_| Rect { w: r.i32(), h: r.i32() }).collect(),
		map: (0..r.below(4)).map(|_| (r.string(), suit(r))).collect(),
		shape: shape(r),
		shapes: (0..r.below(5)).map(|_| shape(r)).collect(),
		tup: (r.i32(), r.i32()),
		pair: Pair(r.i32(), r.i32()),
		after: r.i32(),
		suit: suit(r),
		unit: (),
	}
}

#[derive(Serialize, Deserialize, Debug, PartialEq, Clone)]
struct Tree {
	v: i32,
	children: Vec<Tree>,
	next: Option<Box<Tree>>,
}
const TREE: &str = r#"{"type":"record","name":"Tree","fields":[{"name":"v","type":"int"},{"name":"children","type":{"type":"array","items":"Tree"}},{"name":"next","type":["null","Tree"]}]}"#;
fn tree(r: &mut Rng, depth: u32) -> Tree {
	Tree {
		v: r.i32(),
		children: if depth == 0 { vec![] } else { (0..r.below(3)).map(|_| tree(r, depth - 1)).collect() },
		next: if depth == 0 || r.below(2) == 0 { None } else { Some(Box::new(tree(r, depth - 1))) },
	}
}

#[derive(Serialize, Deserialize, Debug, PartialEq, Clone)]
struct Borrowed<'a> {
	s: &'a str,
	#[serde(with = "serde_bytes")]
	b: &'a [u8],
	n: i32,
	t: &'a str,
}
const BORROWED: &str = r#"{"type":"record","name":"Borrowed","fields":[{"name":"s","type":"string"},{"name":"b","type":"bytes"},{"name":"n","type":"int"},{"name":"t","type":"string"}]}"#;


// an Avro enum with a symbol literally called `Null`, under Option, in collections and alone: the serializer's rule
// "a unit variant called Null designates the null branch of a union" must not capture the symbol
#[derive(Serialize, Deserialize, Debug, PartialEq, Clone)]
enum Tri {
	Null,
	Yes,
	No,
}
#[derive(Serialize, Deserialize, Debug, PartialEq, Clone)]
struct Poll {
	id: i32,
	first: Option<Tri>,
	all: Vec<Option<Tri>>,
	by_key: BTreeMap<String, Option<Tri>>,
	plain: Tri,
	rev: Option<Tri>,
	tail: i64,
}
const TRI_OPT: &str = r#"["null",{"type":"enum","name":"Tri","symbols":["Null","Yes","No"]}]"#;
const POLL: &str = r#"{"type":"record","name":"Poll","fields":[{"name":"id","type":"int"},{"name":"first","type":["null",{"type":"enum","name":"Tri","symbols":["Null","Yes","No"]}]},{"name":"all","type":{"type":"array","items":["null","Tri"]}},{"name":"by_key","type":{"type":"map","values":["null","Tri"]}},{"name":"plain","type":"Tri"},{"name":"rev","type":["Tri","null"]},{"name":"tail","type":"long"}]}"#;
fn tri(r: &mut Rng) -> Tri {
	[Tri::Null, Tri::Yes, Tri::No][r.below(3) as usize].clone()
}
fn opt_tri(r: &mut Rng) -> Option<Tri> {
	if r.below(4) == 0 {
		None
	} else {
		Some(tri(r))
	}
}
fn poll(r: &mut Rng) -> Poll {
	Poll {
		id: r.i32(),
		first: opt_tri(r),
		all: (0..r.below(6)).map(|_| opt_tri(r)).collect(),
		by_key: (0..r.below(4)).map(|_| (r.string(), opt_tri(r))).collect(),
		plain: tri(r),
		rev: opt_tri(r),
		tail: r.i64(),
	}
}

// optional fields that the Serialize impl leaves out when they are None (skip_serializing_if), at every position
// relative to the fields that are provided: before / between / after, one or several provided fields following
#[derive(Serialize, Deserialize, Debug, PartialEq, Clone)]
struct Sparse {
	#[serde(skip_serializing_if = "Option::is_none")]
	z: Option<i32>,
	a: i32,
	#[serde(skip_serializing_if = "Option::is_none")]
	b: Option<i32>,
	c: String,
	d: i64,
	#[serde(skip_serializing_if = "Option::is_none")]
	e: Option<String>,
	#[serde(skip_serializing_if = "Option::is_none")]
	f: Option<i64>,
	g: Option<i32>,
	h: bool,
	#[serde(skip_serializing_if = "Option::is_none")]
	i: Option<Rect>,
	j: Vec<i32>,
	#[serde(skip_serializing_if = "Option::is_none")]
	k: Option<bool>,
}
const SPARSE: &str = r#"{"type":"record","name":"Sparse","fields":[{"name":"z","type":["null","int"]},{"name":"a","type":"int"},{"name":"b","type":["null","int"]},{"name":"c","type":"string"},{"name":"d","type":"long"},{"name":"e","type":["string","null"]},{"name":"f","type":["null","long"]},{"name":"g","type":["null","int"]},{"name":"h","type":"boolean"},{"name":"i","type":["null",{"type":"record","name":"Rect","fields":[{"name":"w","type":"int"},{"name":"h","type":"int"}]}]},{"name":"j","type":{"type":"array","items":"int"}},{"name":"k","type":["null","boolean"]}]}"#;
fn sparse(r: &mut Rng) -> Sparse {
	Sparse {
		z: if r.below(2) == 0 { None } else { Some(r.i32()) },
		a: r.i32(),
		b: if r.below(2) == 0 { None } else { Some(r.i32()) },
		c: r.string(),
		d: r.i64(),
		e: if r.below(2) == 0 { None } else { Some(r.string()) },
		f: if r.below(2) == 0 { None } else { Some(r.i64()) },
		g: if r.below(2) == 0 { None } else { Some(r.i32()) },
		h: r.below(2) == 1,
		i: if r.below(2) == 0 { None } else { Some(Rect { w: r.i32(), h: r.i32() }) },
		j: (0..r.below(4)).map(|_| r.i32()).collect(),
		k: if r.below(2) == 0 { None } else { Some(r.below(2) == 1) },
	}
}

// a union of two named types with the same short name in different namespaces, the un-namespaced one first:
// each branch is designated by the name the deserializer reports (its full name)
#[derive(Serialize, Deserialize, Debug, PartialEq, Clone)]
struct Sample {
	v: i64,
}
#[derive(Serialize, Deserialize, Debug, PartialEq, Clone)]
enum Meas {
	#[serde(rename = "Sample")]
	Cur(Sample),
	#[serde(rename = "old.Sample")]
	Old(Sample),
	#[serde(rename = "Grade")]
	Grade(Suit),
	#[serde(rename = "old.Grade")]
	OldGrade(Tri),
}
#[derive(Serialize, Deserialize, Debug, PartialEq, Clone)]
struct Log {
	items: Vec<Meas>,
	last: Meas,
}
const LOG: &str = r#"{"type":"record","name":"Log","fields":[{"name":"items","type":{"type":"array","items":[{"type":"record","name":"Sample","fields":[{"name":"v","type":"long"}]},{"type":"record","name":"Sample","namespace":"old","fields":[{"name":"v","type":"long"}]},{"type":"enum","name":"Grade","symbols":["Hearts","Spades","Clubs"]},{"type":"enum","name":"Grade","namespace":"old","symbols":["Null","Yes","No"]}]}},{"name":"last","type":["Sample","old.Sample","Grade","old.Grade"]}]}"#;
fn meas(r: &mut Rng) -> Meas {
	match r.below(4) {
		0 => Meas::Cur(Sample { v: r.i64() }),
		1 => Meas::Old(Sample { v: r.i64() }),
		2 => Meas::Grade(suit(r)),
		_ => Meas::OldGrade(tri(r)),
	}
}
fn log(r: &mut Rng) -> Log {
	Log { items: (0..r.below(5)).map(|_| meas(r)).collect(), last: meas(r) }
}

// positions the Rust side keeps optional although the schema's union is not [null,T]: Option<enum of the branches> over
// two non-null branches (leaf kinds the deserializer could mistake for a variant identifier: string, long, int, bytes,
// enum, fixed; and records), one branch, three branches with and without null
#[derive(Serialize, Deserialize, Debug, PartialEq, Clone)]
enum StrOrLong {
	String(String),
	Long(i64),
}
#[derive(Serialize, Deserialize, Debug, PartialEq, Clone)]
enum IntOrSuit {
	Int(i32),
	Suit(Suit),
}
#[derive(Serialize, Deserialize, Debug, PartialEq, Clone)]
enum BytesOrFx {
	#[serde(with = "serde_bytes")]
	Bytes(Vec<u8>),
	#[serde(with = "serde_bytes")]
	Fx(Vec<u8>),
}
#[derive(Serialize, Deserialize, Debug, PartialEq, Clone)]
enum RectOrBool {
	Rect(Rect),
	Boolean(bool),
}
#[derive(Serialize, Deserialize, Debug, PartialEq, Clone)]
enum OnlyStr {
	String(String),
}
#[derive(Serialize, Deserialize, Debug, PartialEq, Clone)]
enum Three {
	Long(i64),
	String(String),
	Suit(Suit),
}
#[derive(Serialize, Deserialize, Debug, PartialEq, Clone)]
struct Opts {
	a: Option<StrOrLong>,
	b: Option<IntOrSuit>,
	c: Option<BytesOrFx>,
	d: Option<RectOrBool>,
	e: Option<OnlyStr>,
	f: Option<Three>,
	g: Option<Three>,
	h: Vec<Option<StrOrLong>>,
	i: BTreeMap<String, Option<IntOrSuit>>,
	tail: i32,
}
const STR_OR_LONG: &str = r#"["string","long"]"#;
const LONG_OR_STR: &str = r#"["long","string"]"#;
const OPTS: &str = r#"{"type":"record","name":"Opts","fields":[{"name":"a","type":["string","long"]},{"name":"b","type":["int",{"type":"enum","name":"Suit","symbols":["Hearts","Spades","Clubs"]}]},{"name":"c","type":[{"type":"fixed","name":"Fx","size":3},"bytes"]},{"name":"d","type":[{"type":"record","name":"Rect","fields":[{"name":"w","type":"int"},{"name":"h","type":"int"}]},"boolean"]},{"name":"e","type":["string"]},{"name":"f","type":["long","string","Suit"]},{"name":"g","type":["string","null","Suit","long"]},{"name":"h","type":{"type":"array","items":["long","string"]}},{"name":"i","type":{"type":"map","values":["Suit","int"]}},{"name":"tail","type":"int"}]}"#;
fn str_or_long(r: &mut Rng) -> StrOrLong {
	if r.below(2) == 0 {
		StrOrLong::String(r.string())
	} else {
		StrOrLong::Long(r.i64())
	}
}
fn int_or_suit(r: &mut Rng) -> IntOrSuit {
	if r.below(2) == 0 {
		IntOrSuit::Int(r.i32())
	} else {
		IntOrSuit::Suit(suit(r))
	}
}
fn three(r: &mut Rng) -> Three {
	match r.below(3) {
		0 => Three::Long(r.i64()),
		1 => Three::String(r.string()),
		_ => Three::Suit(suit(r)),
	}
}
fn opts(r: &mut Rng) -> Opts {
	Opts {
		a: Some(str_or_long(r)),
		b: Some(int_or_suit(r)),
		c: Some(if r.below(2) == 0 { BytesOrFx::Bytes(r.bytes()) } else { BytesOrFx::Fx((0..3).map(|_| r.next() as u8).collect()) }),
		d: Some(if r.below(2) == 0 { RectOrBool::Rect(Rect { w: r.i32(), h: r.i32() }) } else { RectOrBool::Boolean(r.below(2) == 1) }),
		e: Some(OnlyStr::String(r.string())),
		f: Some(three(r)),
		g: if r.below(4) == 0 { None } else { Some(three(r)) },
		h: (0..r.below(4)).map(|_| Some(str_or_long(r))).collect(),
		i: (0..r.below(4)).map(|_| (r.string(), Some(int_or_suit(r)))).collect(),
		tail: r.i32(),
	}
}

// enums held as unions whose variants take every shape serde offers: a TUPLE variant over an array branch, a STRUCT
// variant over a record branch, newtype variants over a map / a leaf / a Vec, a unit variant over null -- each followed by
// further data in the datum (later fields, the next element of a Vec / map), so that a variant that reads one byte too
// few or too many shifts everything behind it
#[derive(Serialize, Deserialize, Debug, PartialEq, Clone)]
enum Geo {
	Null,
	Array(i32, i32),
	Rect { w: i32, h: i32 },
	Map(BTreeMap<String, i32>),
	String(String),
}
#[derive(Serialize, Deserialize, Debug, PartialEq, Clone)]
enum Tup3 {
	Array(String, String, String),
	Long(i64),
}
#[derive(Serialize, Deserialize, Debug, PartialEq, Clone)]
struct Track {
	head: i32,
	g: Geo,
	tail: String,
	gs: Vec<Geo>,
	mid: i64,
	by: BTreeMap<String, Geo>,
	t3: Tup3,
	t3s: Vec<Tup3>,
	last: Geo,
	end: String,
}
const GEO: &str = r#"["null",{"type":"array","items":"int"},{"type":"record","name":"Rect","fields":[{"name":"w","type":"int"},{"name":"h","type":"int"}]},{"type":"map","values":"int"},"string"]"#;
const TUP3: &str = r#"[{"type":"array","items":"string"},"long"]"#;
fn track_schema() -> String {
	let geo_ref = r#"["null",{"type":"array","items":"int"},"Rect",{"type":"map","values":"int"},"string"]"#;
	format!(
		r#"{{"type":"record","name":"Track","fields":[{{"name":"head","type":"int"}},{{"name":"g","type":{GEO}}},{{"name":"tail","type":"string"}},{{"name":"gs","type":{{"type":"array","items":{geo_ref}}}}},{{"name":"mid","type":"long"}},{{"name":"by","type":{{"type":"map","values":{geo_ref}}}}},{{"name":"t3","type":{TUP3}}},{{"name":"t3s","type":{{"type":"array","items":{TUP3}}}}},{{"name":"last","type":{geo_ref}}},{{"name":"end","type":"string"}}]}}"#
	)
}
fn geo(r: &mut Rng) -> Geo {
	match r.below(7) {
		0 => Geo::Null,
		1 | 2 | 3 => Geo::Array(r.i32(), r.i32()),
		4 => Geo::Rect { w: r.i32(), h: r.i32() },
		5 => Geo::Map((0..r.below(3)).map(|_| (r.string(), r.i32())).collect()),
		_ => Geo::String(r.string()),
	}
}
fn tup3(r: &mut Rng) -> Tup3 {
	if r.below(3) == 0 {
		Tup3::Long(r.i64())
	} else {
		Tup3::Array(r.string(), r.string(), r.string())
	}
}
fn track(r: &mut Rng) -> Track {
	Track {
		head: r.i32(),
		g: geo(r),
		tail: r.string(),
		gs: (0..r.below(5)).map(|_| geo(r)).collect(),
		mid: r.i64(),
		by: (0..r.below(4)).map(|_| (r.string(), geo(r))).collect(),
		t3: tup3(r),
		t3s: (0..r.below(4)).map(|_| tup3(r)).collect(),
		last: geo(r),
		end: r.string(),
	}
}

fn within(outer: &[u8], p: *const u8, len: usize) -> bool {
	let (a, b) = (outer.as_ptr() as usize, outer.as_ptr() as usize + outer.len());
	let q = p as usize;
	len == 0 || (q >= a && q + len <= b)
}

fn show_diff(a: &str, b: &str) -> String {
	let (ca, cb): (Vec<char>, Vec<char>) = (a.chars().collect(), b.chars().collect());
	let i = ca.iter().zip(cb.iter()).take_while(|(x, y)| x == y).count();
	let lo = i.saturating_sub(60);
	let sa: String = ca[lo..(i + 60).min(ca.len())].iter().collect();
	let sb: String = cb[lo..(i + 60).min(cb.len())].iter().collect();
	format!("differ at char {i}: written ..{sa}.. read back ..{sb}..")
}

fn rt_owned<T>(schema: &serde_avro_fast::Schema, v: &T, what: &str) -> Result<(), String>
where
	T: Serialize + for<'de> Deserialize<'de> + PartialEq + std::fmt::Debug,
{
	let bytes = serde_avro_fast::to_datum_vec(v, &mut serde_avro_fast::ser::SerializerConfig::new(schema))
		.map_err(|e| format!("{what}: serialize {v:?}: {e}"))?;
	let back: T = serde_avro_fast::from_datum_slice(&bytes, schema).map_err(|e| format!("{what}: from_datum_slice {v:?}: {e}"))?;
	if &back != v {
		return Err(format!("{what}: slice round trip {}", show_diff(&format!("{v:?}"), &format!("{back:?}"))));
	}
	let back: T = serde_avro_fast::from_datum_reader(&bytes[..], schema).map_err(|e| format!("{what}: from_datum_reader {v:?}: {e}"))?;
	if &back != v {
		return Err(format!("{what}: reader round trip {}", show_diff(&format!("{v:?}"), &format!("{back:?}"))));
	}
	// the bytes do not depend on the sink: a writer taking at most k bytes per `write` call, a slice of exactly the
	// right size; a slice that is one byte too small must give an error (never Ok with a truncated datum)
	for k in [1usize, 2, 7] {
		let mut w = crate::io::ScheduledWriter::new(vec![crate::io::WAns::Accept(k)], false);
		serde_avro_fast::to_datum(v, &mut w, &mut serde_avro_fast::ser::SerializerConfig::new(schema))
			.map_err(|e| format!("{what}: serialize {v:?} to a writer taking {k} bytes per call: {e}"))?;
		if w.out != bytes {
			return Err(format!("{what}: {v:?}: a writer taking {k} bytes per call received {:02x?}, a Vec {:02x?}", w.out, bytes));
		}
	}
	{
		let mut buf = vec![0u8; bytes.len()];
		let left = {
			let mut slice: &mut [u8] = &mut buf[..];
			serde_avro_fast::to_datum(v, &mut slice, &mut serde_avro_fast::ser::SerializerConfig::new(schema))
				.map_err(|e| format!("{what}: serialize {v:?} to a slice of the exact size: {e}"))?;
			slice.len()
		};
		if left != 0 || buf != bytes {
			return Err(format!("{what}: {v:?}: a slice of the exact size received {:02x?} ({left} left), a Vec {:02x?}", buf, bytes));
		}
		if !bytes.is_empty() {
			let mut small = vec![0u8; bytes.len() - 1];
			let mut slice: &mut [u8] = &mut small[..];
			if serde_avro_fast::to_datum(v, &mut slice, &mut serde_avro_fast::ser::SerializerConfig::new(schema)).is_ok() {
				return Err(format!("{what}: {v:?}: serializing {} bytes into a slice of {} bytes returned Ok", bytes.len(), bytes.len() - 1));
			}
		}
	}
	for k in [1usize, 3] {
		let rd = crate::io::ChunkedReader::new(bytes.clone(), vec![k]);
		let back: T =
			serde_avro_fast::from_datum_reader(rd, schema).map_err(|e| format!("{what}: from_datum_reader chunks {k} {v:?}: {e}"))?;
		if &back != v {
			return Err(format!("{what}: chunked reader ({k}) round trip {}", show_diff(&format!("{v:?}"), &format!("{back:?}"))));
		}
	}
	Ok(())
}

pub fn run(seed: u64, n: usize) -> Result<usize, String> {
	let mut r = Rng::new(seed);
	let prim_s: serde_avro_fast::Schema = PRIM.parse().map_err(|e| format!("schema Prim: {e}"))?;
	let nested_s: serde_avro_fast::Schema = nested_schema().parse().map_err(|e| format!("schema Nested: {e}"))?;
	let tree_s: serde_avro_fast::Schema = TREE.parse().map_err(|e| format!("schema Tree: {e}"))?;
	let bor_s: serde_avro_fast::Schema = BORROWED.parse().map_err(|e| format!("schema Borrowed: {e}"))?;
	let tri_opt_s: serde_avro_fast::Schema = TRI_OPT.parse().map_err(|e| format!("schema Option<Tri>: {e}"))?;
	let poll_s: serde_avro_fast::Schema = POLL.parse().map_err(|e| format!("schema Poll: {e}"))?;
	let sparse_s: serde_avro_fast::Schema = SPARSE.parse().map_err(|e| format!("schema Sparse: {e}"))?;
	let log_s: serde_avro_fast::Schema = LOG.parse().map_err(|e| format!("schema Log: {e}"))?;
	let sl_s: serde_avro_fast::Schema = STR_OR_LONG.parse().map_err(|e| format!("schema [string,long]: {e}"))?;
	let ls_s: serde_avro_fast::Schema = LONG_OR_STR.parse().map_err(|e| format!("schema [long,string]: {e}"))?;
	let opts_s: serde_avro_fast::Schema = OPTS.parse().map_err(|e| format!("schema Opts: {e}"))?;
	let geo_s: serde_avro_fast::Schema = GEO.parse().map_err(|e| format!("schema Geo: {e}"))?;
	let geos_s: serde_avro_fast::Schema = format!(r#"{{"type":"array","items":{GEO}}}"#).parse().map_err(|e| format!("schema Vec<Geo>: {e}"))?;
	let track_s: serde_avro_fast::Schema = track_schema().parse().map_err(|e| format!("schema Track: {e}"))?;
	let mut count = 0;
	for _ in 0..n {
		rt_owned(&sl_s, &Some(str_or_long(&mut r)), "Option<StrOrLong> on [string,long]")?;
		rt_owned(&ls_s, &Some(str_or_long(&mut r)), "Option<StrOrLong> on [long,string]")?;
		rt_owned(&opts_s, &opts(&mut r), "Opts")?;
		count += 3;
		rt_owned(&geo_s, &geo(&mut r), "Geo (enum as union: tuple / struct / newtype / unit variants)")?;
		rt_owned(&geos_s, &(0..r.below(5)).map(|_| geo(&mut r)).collect::<Vec<_>>(), "Vec<Geo>")?;
		rt_owned(&track_s, &track(&mut r), "Track (variants of every shape followed by further fields / elements)")?;
		count += 3;
		rt_owned(&tri_opt_s, &opt_tri(&mut r), "Option<Tri>")?;
		rt_owned(&poll_s, &poll(&mut r), "Poll")?;
		rt_owned(&sparse_s, &sparse(&mut r), "Sparse")?;
		rt_owned(&log_s, &log(&mut r), "Log")?;
		count += 4;
		rt_owned(&prim_s, &prim(&mut r), "Prim")?;
		rt_owned(&nested_s, &nested(&mut r), "Nested")?;
		rt_owned(&tree_s, &tree(&mut r, 4), "Tree")?;
		// borrowed: values must be equal AND point into the input slice
		let (s, b, t) = (r.string(), r.bytes(), r.string());
		let v = Borrowed { s: &s, b: &b, n: r.i32(), t: &t };
		let bytes = serde_avro_fast::to_datum_vec(&v, &mut serde_avro_fast::ser::SerializerConfig::new(&bor_s))
			.map_err(|e| format!("Borrowed: serialize: {e}"))?;
		let back: Borrowed = serde_avro_fast::from_datum_slice(&bytes, &bor_s).map_err(|e| format!("Borrowed: from_datum_slice {v:?}: {e}"))?;
		if back != v {
			return Err(format!("Borrowed: round trip {v:?} -> {back:?}"));
		}
		if !within(&bytes, back.s.as_ptr(), back.s.len()) || !within(&bytes, back.b.as_ptr(), back.b.len()) || !within(&bytes, back.t.as_ptr(), back.t.len()) {
			return Err(format!("Borrowed: a borrowed field does not point into the input slice ({v:?})"));
		}
		count += 4;
	}
	Ok(count)
}


// ---------------------------------------------------------------- rtskip
// Derived structs whose fields are DECLARED in an order other than the schema's and whose optional fields are left out by
// the derived impl when None (`skip_serializing_if`: the impl calls SerializeStruct::skip_field at the field's declared
// position) -- so the skipped nullable field arrives before, between and after fields that are already buffered / written.
// Hand-written schema (not the derived one). Expected bytes: those of the struct declared in schema order that presents
// every field (None as a value), and these decode back to the same value.
#[derive(Serialize, Deserialize, Debug, PartialEq, Clone)]
struct ShufFull {
	a: i32,
	b: Option<String>,
	c: i32,
	d: Option<i64>,
	e: i64,
	f: Option<String>,
}
const SHUF: &str = r#"{"type":"record","name":"Shuf","fields":[{"name":"a","type":"int"},{"name":"b","type":["null","string"]},{"name":"c","type":"int"},{"name":"d","type":["null","long"]},{"name":"e","type":"long"},{"name":"f","type":["string","null"]}]}"#;
macro_rules! shuf {
	($name:ident { $($(#[$m:meta])* $f:ident : $t:ty),* }) => {
		#[derive(Serialize, Debug)]
		struct $name { $($(#[$m])* $f: $t),* }
		impl $name { fn of(x: &ShufFull) -> Self { $name { $($f: x.$f.clone()),* } } }
	};
}
shuf!(ShufA { a: i32, c: i32, #[serde(skip_serializing_if = "Option::is_none")] b: Option<String>, #[serde(skip_serializing_if = "Option::is_none")] d: Option<i64>, e: i64, #[serde(skip_serializing_if = "Option::is_none")] f: Option<String> });
shuf!(ShufB { c: i32, a: i32, #[serde(skip_serializing_if = "Option::is_none")] b: Option<String>, e: i64, #[serde(skip_serializing_if = "Option::is_none")] d: Option<i64>, #[serde(skip_serializing_if = "Option::is_none")] f: Option<String> });
shuf!(ShufC { #[serde(skip_serializing_if = "Option::is_none")] f: Option<String>, e: i64, #[serde(skip_serializing_if = "Option::is_none")] d: Option<i64>, c: i32, #[serde(skip_serializing_if = "Option::is_none")] b: Option<String>, a: i32 });
shuf!(ShufD { #[serde(skip_serializing_if = "Option::is_none")] b: Option<String>, a: i32, #[serde(skip_serializing_if = "Option::is_none")] d: Option<i64>, c: i32, #[serde(skip_serializing_if = "Option::is_none")] f: Option<String>, e: i64 });
shuf!(ShufE { a: i32, #[serde(skip_serializing_if = "Option::is_none")] b: Option<String>, #[serde(skip_serializing_if = "Option::is_none")] d: Option<i64>, c: i32, e: i64, #[serde(skip_serializing_if = "Option::is_none")] f: Option<String> });
shuf!(ShufF { c: i32, e: i64, a: i32, #[serde(skip_serializing_if = "Option::is_none")] b: Option<String>, #[serde(skip_serializing_if = "Option::is_none")] f: Option<String>, #[serde(skip_serializing_if = "Option::is_none")] d: Option<i64> });
shuf!(ShufG { e: i64, c: i32, a: i32, #[serde(skip_serializing_if = "Option::is_none")] b: Option<String>, #[serde(skip_serializing_if = "Option::is_none")] d: Option<i64>, #[serde(skip_serializing_if = "Option::is_none")] f: Option<String> });
shuf!(ShufH { a: i32, #[serde(skip_serializing_if = "Option::is_none")] b: Option<String>, c: i32, #[serde(skip_serializing_if = "Option::is_none")] d: Option<i64>, e: i64, #[serde(skip_serializing_if = "Option::is_none")] f: Option<String> });
// the same as a struct variant of an enum (SerializeStructVariant::skip_field), record designated by the variant name
#[derive(Serialize, Debug)]
enum ShufEnum {
	Shuf {
		a: i32,
		c: i32,
		#[serde(skip_serializing_if = "Option::is_none")]
		b: Option<String>,
		e: i64,
		#[serde(skip_serializing_if = "Option::is_none")]
		d: Option<i64>,
		#[serde(skip_serializing_if = "Option::is_none")]
		f: Option<String>,
	},
}

/// rtskip SEED N -> number of (value, struct) pairs compared | description of the first difference
pub fn run_skip(seed: u64, n: usize) -> Result<usize, String> {
	let mut r = Rng::new(seed ^ 0x5C1F);
	let schema: serde_avro_fast::Schema = SHUF.parse().map_err(|e| format!("schema Shuf: {e}"))?;
	let mut count = 0;
	for i in 0..n.max(8) {
		// every subset of {b, d, f} left out (the first 8 values), then at random
		let m = if i < 8 { i as u64 } else { r.below(8) };
		let v = ShufFull {
			a: r.i32(),
			b: if m & 1 != 0 { None } else { Some(r.string()) },
			c: r.i32(),
			d: if m & 2 != 0 { None } else { Some(r.i64()) },
			e: r.i64(),
			f: if m & 4 != 0 { None } else { Some(r.string()) },
		};
		let want = serde_avro_fast::to_datum_vec(&v, &mut serde_avro_fast::ser::SerializerConfig::new(&schema))
			.map_err(|e| format!("ShufFull: serialize {v:?}: {e}"))?;
		let back: ShufFull = serde_avro_fast::from_datum_slice(&want, &schema).map_err(|e| format!("ShufFull: from_datum_slice {v:?}: {e}"))?;
		if back != v {
			return Err(format!("ShufFull: round trip {v:?} -> {back:?}"));
		}
		macro_rules! cmp {
			($what:expr, $val:expr) => {{
				let x = $val;
				// a fresh configuration, and one that has been used (its buffer pools are filled by the first run)
				let mut cfg = serde_avro_fast::ser::SerializerConfig::new(&schema);
				for round in 0..2 {
					match serde_avro_fast::to_datum_vec(&x, &mut cfg) {
						Err(e) => return Err(format!("{} (fields declared out of schema order, None fields skipped by skip_serializing_if; round {round}): {x:?}: serialize: {e}", $what)),
						Ok(got) => {
							if got != want {
								return Err(format!("{} (fields declared out of schema order, None fields skipped by skip_serializing_if; round {round}): {x:?}: bytes {got:02x?}, the struct in schema order gives {want:02x?}", $what));
							}
						}
					}
				}
				count += 1;
			}};
		}
		cmp!("ShufA{a,c,b?,d?,e,f?}", ShufA::of(&v));
		cmp!("ShufB{c,a,b?,e,d?,f?}", ShufB::of(&v));
		cmp!("ShufC{f?,e,d?,c,b?,a}", ShufC::of(&v));
		cmp!("ShufD{b?,a,d?,c,f?,e}", ShufD::of(&v));
		cmp!("ShufE{a,b?,d?,c,e,f?}", ShufE::of(&v));
		cmp!("ShufF{c,e,a,b?,f?,d?}", ShufF::of(&v));
		cmp!("ShufG{e,c,a,b?,d?,f?}", ShufG::of(&v));
		cmp!("ShufH{a,b?,c,d?,e,f?} (schema order)", ShufH::of(&v));
		cmp!("enum ShufEnum::Shuf{a,c,b?,e,d?,f?}", ShufEnum::Shuf { a: v.a, c: v.c, b: v.b.clone(), e: v.e, d: v.d, f: v.f.clone() });
	}
	Ok(count)
}
