//! A universal deserialization target: a program of hint calls, realised as a
//! `DeserializeSeed` whose visitors record the callbacks they receive.
//!
//! DTARGET ::= any | ignored | bool | i8..i128 | u8..u128 | f32 | f64 | char | str | string
//!   | bytes | bytebuf | identifier | unit | (unit_struct xN) | (newtype_struct xN T)
//!   | (option T) | (seq T) | (tuple T...) | (tuple_struct xN T...) | (map TK TV)
//!   | (struct xN (xF T)...) | (enum xN VARIANT...)
//!   VARIANT ::= (unit xV) | (newtype xV T) | (tuple xV T...) | (struct xV (xF T)...)
//!
//! Every visitor accepts every `visit_*` call and records it; only the
//! structure-aware callbacks (`visit_seq`, `visit_map`, `visit_enum`,
//! `visit_some`, `visit_newtype_struct`) look at the target to decide which seed
//! to use for children. The same table is written in Coq (`model/Target.v`).

use crate::sexp::{hex, Sx};
use crate::sval::intern;
use serde::de::*;
use std::cell::Cell;

#[derive(Clone, Debug)]
pub enum DTarget {
	Any,
	Ignored,
	Hint(&'static str),
	UnitStruct(&'static str),
	NewtypeStruct(&'static str, Box<DTarget>),
	Option(Box<DTarget>),
	Seq(Box<DTarget>),
	Tuple(Vec<DTarget>),
	TupleStruct(&'static str, Vec<DTarget>),
	Map(Box<DTarget>, Box<DTarget>),
	Struct(&'static str, &'static [&'static str], Vec<(&'static str, DTarget)>),
	Enum(&'static str, &'static [&'static str], Vec<Variant>),
}

#[derive(Clone, Debug)]
pub enum Variant {
	Unit(&'static str),
	Newtype(&'static str, DTarget),
	Tuple(&'static str, Vec<DTarget>),
	Struct(&'static str, &'static [&'static str], Vec<(&'static str, DTarget)>),
}
impl Variant {
	pub fn name(&self) -> &'static str {
		match self {
			Variant::Unit(n) | Variant::Newtype(n, _) | Variant::Tuple(n, _) | Variant::Struct(n, _, _) => n,
		}
	}
}

const HINTS: &[&str] = &[
	"bool", "i8", "i16", "i32", "i64", "i128", "u8", "u16", "u32", "u64", "u128", "f32", "f64", "char",
	"str", "string", "bytes", "bytebuf", "identifier", "unit",
];

fn leak_names(v: Vec<&'static str>) -> &'static [&'static str] {
	Box::leak(v.into_boxed_slice())
}

impl DTarget {
	pub fn from_sx(sx: &Sx) -> Result<DTarget, String> {
		let (h, a) = sx.head()?;
		let many = |a: &[Sx]| a.iter().map(DTarget::from_sx).collect::<Result<Vec<_>, _>>();
		let fields = |a: &[Sx]| {
			a.iter()
				.map(|f| {
					let l = f.list()?;
					Ok((intern(&l[0].string()?), DTarget::from_sx(&l[1])?))
				})
				.collect::<Result<Vec<_>, String>>()
		};
		Ok(match h {
			"any" => DTarget::Any,
			"ignored" => DTarget::Ignored,
			_ if HINTS.contains(&h) => DTarget::Hint(HINTS.iter().find(|x| **x == h).unwrap()),
			"unit_struct" => DTarget::UnitStruct(intern(&a[0].string()?)),
			"newtype_struct" => {
				DTarget::NewtypeStruct(intern(&a[0].string()?), Box::new(DTarget::from_sx(&a[1])?))
			}
			"option" => DTarget::Option(Box::new(DTarget::from_sx(&a[0])?)),
			"seq" => DTarget::Seq(Box::new(DTarget::from_sx(&a[0])?)),
			"tuple" => DTarget::Tuple(many(a)?),
			"tuple_struct" => DTarget::TupleStruct(intern(&a[0].string()?), many(&a[1..])?),
			"map" => DTarget::Map(
				Box::new(DTarget::from_sx(&a[0])?),
				Box::new(DTarget::from_sx(&a[1])?),
			),
			"struct" => {
				let fs = fields(&a[1..])?;
				DTarget::Struct(
					intern(&a[0].string()?),
					leak_names(fs.iter().map(|f| f.0).collect()),
					fs,
				)
			}
			"enum" => {
				let mut vs = Vec::new();
				for v in &a[1..] {
					let (vh, va) = v.head()?;
					let vn = intern(&va[0].string()?);
					vs.push(match vh {
						"unit" => Variant::Unit(vn),
						"newtype" => Variant::Newtype(vn, DTarget::from_sx(&va[1])?),
						"tuple" => Variant::Tuple(vn, many(&va[1..])?),
						"struct" => {
							let fs = fields(&va[1..])?;
							Variant::Struct(vn, leak_names(fs.iter().map(|f| f.0).collect()), fs)
						}
						other => return Err(format!("bad variant kind {other}")),
					});
				}
				DTarget::Enum(
					intern(&a[0].string()?),
					leak_names(vs.iter().map(|v| v.name()).collect()),
					vs,
				)
			}
			other => return Err(format!("unknown dtarget {other}")),
		})
	}
}

#[derive(Clone, Debug, PartialEq)]
pub enum DVal {
	Bool(bool),
	I(&'static str, i128),
	U(&'static str, u128),
	F32(u32),
	F64(u64),
	Char(char),
	Unit,
	None,
	Some(Box<DVal>),
	Str(Vec<u8>),
	BStr(i64, usize, Vec<u8>),
	Bytes(Vec<u8>),
	BBytes(i64, usize, Vec<u8>),
	Seq(Vec<DVal>),
	Map(Vec<(DVal, DVal)>),
	Newtype(Box<DVal>),
	Enum(Vec<u8>, Box<DVal>),
	Struct(Vec<(Vec<u8>, DVal)>),
	Missing,
	Ignored,
}

impl std::fmt::Display for DVal {
	fn fmt(&self, f: &mut std::fmt::Formatter<'_>) -> std::fmt::Result {
		match self {
			DVal::Bool(b) => write!(f, "(bool {})", *b as u8),
			DVal::I(w, n) => write!(f, "({w} {n})"),
			DVal::U(w, n) => write!(f, "({w} {n})"),
			DVal::F32(b) => write!(f, "(f32 {b})"),
			DVal::F64(b) => write!(f, "(f64 {b})"),
			DVal::Char(c) => write!(f, "(char {})", *c as u32),
			DVal::Unit => write!(f, "unit"),
			DVal::None => write!(f, "none"),
			DVal::Some(d) => write!(f, "(some {d})"),
			DVal::Str(s) => write!(f, "(str {})", hex(s)),
			DVal::BStr(o, l, s) => write!(f, "(bstr {o} {l} {})", hex(s)),
			DVal::Bytes(s) => write!(f, "(bytes {})", hex(s)),
			DVal::BBytes(o, l, s) => write!(f, "(bbytes {o} {l} {})", hex(s)),
			DVal::Seq(ds) => {
				write!(f, "(seq")?;
				for d in ds {
					write!(f, " {d}")?;
				}
				write!(f, ")")
			}
			DVal::Map(kvs) => {
				write!(f, "(map")?;
				for (k, v) in kvs {
					write!(f, " ({k} {v})")?;
				}
				write!(f, ")")
			}
			DVal::Newtype(d) => write!(f, "(newtype {d})"),
			DVal::Enum(v, d) => write!(f, "(enum {} {d})", hex(v)),
			DVal::Struct(fs) => {
				write!(f, "(struct")?;
				for (k, v) in fs {
					write!(f, " ({} {v})", hex(k))?;
				}
				write!(f, ")")
			}
			DVal::Missing => write!(f, "missing"),
			DVal::Ignored => write!(f, "ignored"),
		}
	}
}

thread_local! {
	/// (base address, length) of the input slice for borrowed-offset computation
	pub static INPUT: Cell<(usize, usize)> = const { Cell::new((0, 0)) };
}

fn offset_of(p: *const u8, len: usize) -> i64 {
	let (base, blen) = INPUT.with(|c| c.get());
	let a = p as usize;
	if base != 0 && a >= base && a + len <= base + blen {
		(a - base) as i64
	} else {
		-1 // borrowed from somewhere that is not the input: reported as offset -1
	}
}

impl<'de, 't> DeserializeSeed<'de> for &'t DTarget {
	type Value = DVal;
	fn deserialize<D: Deserializer<'de>>(self, d: D) -> Result<DVal, D::Error> {
		let v = V(self);
		match self {
			DTarget::Any => d.deserialize_any(v),
			DTarget::Ignored => {
				IgnoredAny::deserialize(d)?;
				Ok(DVal::Ignored)
			}
			DTarget::Hint(h) => match *h {
				"bool" => d.deserialize_bool(v),
				"i8" => d.deserialize_i8(v),
				"i16" => d.deserialize_i16(v),
				"i32" => d.deserialize_i32(v),
				"i64" => d.deserialize_i64(v),
				"i128" => d.deserialize_i128(v),
				"u8" => d.deserialize_u8(v),
				"u16" => d.deserialize_u16(v),
				"u32" => d.deserialize_u32(v),
				"u64" => d.deserialize_u64(v),
				"u128" => d.deserialize_u128(v),
				"f32" => d.deserialize_f32(v),
				"f64" => d.deserialize_f64(v),
				"char" => d.deserialize_char(v),
				"str" => d.deserialize_str(v),
				"string" => d.deserialize_string(v),
				"bytes" => d.deserialize_bytes(v),
				"bytebuf" => d.deserialize_byte_buf(v),
				"identifier" => d.deserialize_identifier(v),
				"unit" => d.deserialize_unit(v),
				_ => unreachable!(),
			},
			DTarget::UnitStruct(n) => d.deserialize_unit_struct(n, v),
			DTarget::NewtypeStruct(n, _) => d.deserialize_newtype_struct(n, v),
			DTarget::Option(_) => d.deserialize_option(v),
			DTarget::Seq(_) => d.deserialize_seq(v),
			DTarget::Tuple(ts) => d.deserialize_tuple(ts.len(), v),
			DTarget::TupleStruct(n, ts) => d.deserialize_tuple_struct(n, ts.len(), v),
			DTarget::Map(_, _) => d.deserialize_map(v),
			DTarget::Struct(n, names, _) => d.deserialize_struct(n, names, v),
			DTarget::Enum(n, names, _) => d.deserialize_enum(n, names, v),
		}
	}
}

static ANY: DTarget = DTarget::Any;
static IDENT: DTarget = DTarget::Hint("identifier");
static IGNORED: DTarget = DTarget::Ignored;

thread_local! {
	static EVENT_BUDGET: std::cell::Cell<usize> = const { std::cell::Cell::new(EVENT_BUDGET_PER_CASE) };
	static EVENT_BUDGET_HIT: std::cell::Cell<bool> = const { std::cell::Cell::new(false) };
}
/// The recording visitor keeps every element of every sequence / map it is handed. A hostile 10-byte input can announce
/// hundreds of millions of zero-byte items (within the crate's default max_seq_size): recording them would take tens of
/// gigabytes here and in the runner. Beyond this many recorded elements per case the visitor returns an error and the case is
/// reported as `(budget)` (skipped by the runners, counted).
const EVENT_BUDGET_PER_CASE: usize = 2_000_000;
pub fn reset_event_budget() {
	EVENT_BUDGET.with(|b| b.set(EVENT_BUDGET_PER_CASE));
	EVENT_BUDGET_HIT.with(|b| b.set(false));
}
pub fn event_budget_exhausted() -> bool {
	EVENT_BUDGET_HIT.with(|b| b.get())
}
fn spend_event<E: Error>() -> Result<(), E> {
	EVENT_BUDGET.with(|b| {
		if b.get() == 0 {
			EVENT_BUDGET_HIT.with(|h| h.set(true));
			Err(E::custom("avrodrive: event budget of the recording visitor exhausted"))
		} else {
			b.set(b.get() - 1);
			Ok(())
		}
	})
}

struct V<'t>(&'t DTarget);

fn tuple_seq<'de, A: SeqAccess<'de>>(ts: &[DTarget], mut seq: A) -> Result<DVal, A::Error> {
	let mut out = Vec::new();
	for (i, t) in ts.iter().enumerate() {
		match seq.next_element_seed(t)? {
			Some(d) => out.push(d),
			None => return Err(A::Error::invalid_length(i, &"tuple of the advertised length")),
		}
	}
	Ok(DVal::Seq(out))
}

fn struct_map<'de, A: MapAccess<'de>>(
	fields: &[(&'static str, DTarget)],
	mut map: A,
) -> Result<DVal, A::Error> {
	let mut out: Vec<(Vec<u8>, DVal)> = Vec::new();
	let mut seen = vec![false; fields.len()];
	while let Some(k) = map.next_key_seed(&IDENT)? {
		let kb: Option<Vec<u8>> = match &k {
			DVal::Str(s) | DVal::BStr(_, _, s) | DVal::Bytes(s) | DVal::BBytes(_, _, s) => {
				Some(s.clone())
			}
			DVal::U(_, i) => fields.get(*i as usize).map(|f| f.0.as_bytes().to_vec()),
			_ => None,
		};
		let idx = kb
			.as_ref()
			.and_then(|kb| fields.iter().position(|f| f.0.as_bytes() == &kb[..]));
		match idx {
			Some(i) => {
				if seen[i] {
					return Err(A::Error::duplicate_field(fields[i].0));
				}
				seen[i] = true;
				let v = map.next_value_seed(&fields[i].1)?;
				out.push((fields[i].0.as_bytes().to_vec(), v));
			}
			None => {
				map.next_value_seed(&IGNORED)?;
			}
		}
	}
	for (i, f) in fields.iter().enumerate() {
		if !seen[i] {
			out.push((f.0.as_bytes().to_vec(), DVal::Missing));
		}
	}
	Ok(DVal::Struct(out))
}

fn struct_seq<'de, A: SeqAccess<'de>>(
	fields: &[(&'static str, DTarget)],
	mut seq: A,
) -> Result<DVal, A::Error> {
	let mut out = Vec::new();
	for (i, f) in fields.iter().enumerate() {
		match seq.next_element_seed(&f.1)? {
			Some(d) => out.push((f.0.as_bytes().to_vec(), d)),
			None => return Err(A::Error::invalid_length(i, &"struct with all its fields")),
		}
	}
	Ok(DVal::Struct(out))
}

impl<'de, 't> Visitor<'de> for V<'t> {
	type Value = DVal;
	fn expecting(&self, f: &mut std::fmt::Formatter) -> std::fmt::Result {
		write!(f, "anything (recording visitor)")
	}
	fn visit_bool<E: Error>(self, v: bool) -> Result<DVal, E> {
		Ok(DVal::Bool(v))
	}
	fn visit_i8<E: Error>(self, v: i8) -> Result<DVal, E> {
		Ok(DVal::I("i8", v as i128))
	}
	fn visit_i16<E: Error>(self, v: i16) -> Result<DVal, E> {
		Ok(DVal::I("i16", v as i128))
	}
	fn visit_i32<E: Error>(self, v: i32) -> Result<DVal, E> {
		Ok(DVal::I("i32", v as i128))
	}
	fn visit_i64<E: Error>(self, v: i64) -> Result<DVal, E> {
		Ok(DVal::I("i64", v as i128))
	}
	fn visit_i128<E: Error>(self, v: i128) -> Result<DVal, E> {
		Ok(DVal::I("i128", v))
	}
	fn visit_u8<E: Error>(self, v: u8) -> Result<DVal, E> {
		Ok(DVal::U("u8", v as u128))
	}
	fn visit_u16<E: Error>(self, v: u16) -> Result<DVal, E> {
		Ok(DVal::U("u16", v as u128))
	}
	fn visit_u32<E: Error>(self, v: u32) -> Result<DVal, E> {
		Ok(DVal::U("u32", v as u128))
	}
	fn visit_u64<E: Error>(self, v: u64) -> Result<DVal, E> {
		Ok(DVal::U("u64", v as u128))
	}
	fn visit_u128<E: Error>(self, v: u128) -> Result<DVal, E> {
		Ok(DVal::U("u128", v))
	}
	fn visit_f32<E: Error>(self, v: f32) -> Result<DVal, E> {
		Ok(DVal::F32(v.to_bits()))
	}
	fn visit_f64<E: Error>(self, v: f64) -> Result<DVal, E> {
		Ok(DVal::F64(v.to_bits()))
	}
	fn visit_char<E: Error>(self, v: char) -> Result<DVal, E> {
		Ok(DVal::Char(v))
	}
	fn visit_str<E: Error>(self, v: &str) -> Result<DVal, E> {
		Ok(DVal::Str(v.as_bytes().to_vec()))
	}
	fn visit_borrowed_str<E: Error>(self, v: &'de str) -> Result<DVal, E> {
		Ok(DVal::BStr(offset_of(v.as_ptr(), v.len()), v.len(), v.as_bytes().to_vec()))
	}
	fn visit_string<E: Error>(self, v: String) -> Result<DVal, E> {
		Ok(DVal::Str(v.into_bytes()))
	}
	fn visit_bytes<E: Error>(self, v: &[u8]) -> Result<DVal, E> {
		Ok(DVal::Bytes(v.to_vec()))
	}
	fn visit_borrowed_bytes<E: Error>(self, v: &'de [u8]) -> Result<DVal, E> {
		Ok(DVal::BBytes(offset_of(v.as_ptr(), v.len()), v.len(), v.to_vec()))
	}
	fn visit_byte_buf<E: Error>(self, v: Vec<u8>) -> Result<DVal, E> {
		Ok(DVal::Bytes(v))
	}
	fn visit_none<E: Error>(self) -> Result<DVal, E> {
		Ok(DVal::None)
	}
	fn visit_unit<E: Error>(self) -> Result<DVal, E> {
		Ok(DVal::Unit)
	}
	fn visit_some<D: Deserializer<'de>>(self, d: D) -> Result<DVal, D::Error> {
		let inner: &DTarget = match self.0 {
			DTarget::Option(t) => t,
			_ => &ANY,
		};
		Ok(DVal::Some(Box::new(inner.deserialize(d)?)))
	}
	fn visit_newtype_struct<D: Deserializer<'de>>(self, d: D) -> Result<DVal, D::Error> {
		let inner: &DTarget = match self.0 {
			DTarget::NewtypeStruct(_, t) => t,
			_ => &ANY,
		};
		Ok(DVal::Newtype(Box::new(inner.deserialize(d)?)))
	}
	fn visit_seq<A: SeqAccess<'de>>(self, mut seq: A) -> Result<DVal, A::Error> {
		match self.0 {
			DTarget::Tuple(ts) | DTarget::TupleStruct(_, ts) => tuple_seq(ts, seq),
			DTarget::Struct(_, _, fs) => struct_seq(fs, seq),
			DTarget::NewtypeStruct(_, t) => match seq.next_element_seed(&**t)? {
				Some(d) => Ok(DVal::Newtype(Box::new(d))),
				None => Err(A::Error::invalid_length(0, &"newtype struct")),
			},
			other => {
				let elem: &DTarget = match other {
					DTarget::Seq(t) => t,
					_ => &ANY,
				};
				let mut out = Vec::new();
				while let Some(d) = seq.next_element_seed(elem)? {
					spend_event::<A::Error>()?;
					out.push(d);
				}
				Ok(DVal::Seq(out))
			}
		}
	}
	fn visit_map<A: MapAccess<'de>>(self, mut map: A) -> Result<DVal, A::Error> {
		match self.0 {
			DTarget::Struct(_, _, fs) => struct_map(fs, map),
			other => {
				let (tk, tv): (&DTarget, &DTarget) = match other {
					DTarget::Map(k, v) => (k, v),
					_ => (&ANY, &ANY),
				};
				let mut out = Vec::new();
				while let Some(k) = map.next_key_seed(tk)? {
					let v = map.next_value_seed(tv)?;
					spend_event::<A::Error>()?;
					out.push((k, v));
				}
				Ok(DVal::Map(out))
			}
		}
	}
	fn visit_enum<A: EnumAccess<'de>>(self, data: A) -> Result<DVal, A::Error> {
		let variants: &[Variant] = match self.0 {
			DTarget::Enum(_, _, vs) => vs,
			_ => return Err(A::Error::custom("verif: visit_enum on a non-enum target")),
		};
		let (k, access) = data.variant_seed(&IDENT)?;
		let idx = match &k {
			DVal::Str(s) | DVal::BStr(_, _, s) | DVal::Bytes(s) | DVal::BBytes(_, _, s) => {
				variants.iter().position(|v| v.name().as_bytes() == &s[..])
			}
			DVal::U(_, i) => {
				if (*i as usize) < variants.len() {
					Some(*i as usize)
				} else {
					None
				}
			}
			_ => None,
		};
		let v = match idx {
			Some(i) => &variants[i],
			None => return Err(A::Error::custom(format_args!("verif: unknown variant {k}"))),
		};
		let name = v.name().as_bytes().to_vec();
		let payload = match v {
			Variant::Unit(_) => {
				access.unit_variant()?;
				DVal::Unit
			}
			Variant::Newtype(_, t) => access.newtype_variant_seed(t)?,
			Variant::Tuple(_, ts) => access.tuple_variant(ts.len(), TupleV(ts))?,
			Variant::Struct(_, names, fs) => access.struct_variant(names, StructV(fs))?,
		};
		Ok(DVal::Enum(name, Box::new(payload)))
	}
}

struct TupleV<'t>(&'t [DTarget]);
impl<'de> Visitor<'de> for TupleV<'_> {
	type Value = DVal;
	fn expecting(&self, f: &mut std::fmt::Formatter) -> std::fmt::Result {
		write!(f, "tuple variant")
	}
	fn visit_seq<A: SeqAccess<'de>>(self, seq: A) -> Result<DVal, A::Error> {
		tuple_seq(self.0, seq)
	}
}
struct StructV<'t>(&'t [(&'static str, DTarget)]);
impl<'de> Visitor<'de> for StructV<'_> {
	type Value = DVal;
	fn expecting(&self, f: &mut std::fmt::Formatter) -> std::fmt::Result {
		write!(f, "struct variant")
	}
	fn visit_seq<A: SeqAccess<'de>>(self, seq: A) -> Result<DVal, A::Error> {
		struct_seq(self.0, seq)
	}
	fn visit_map<A: MapAccess<'de>>(self, map: A) -> Result<DVal, A::Error> {
		struct_map(self.0, map)
	}
}
