//! `rtkf`: probes for the recorded known findings of C20 (known_findings.json: KF2, KF3). Each probe is a small fixed
//! family of ordinary Rust types with the derives; it reports, per class, whether the property holds NOW (ok) or
//! still fails (fail + what). The Coq witnesses are DeriveFitsProofs.refuted_option_option /
//! refuted_option_newtype_named_null. A probe that passes prints ok: the finding is then no longer reported.
use serde::{Deserialize, Serialize};
use serde_avro_derive::BuildSchema;
use serde_avro_fast::schema::{RegularType, SchemaMut};

#[derive(BuildSchema, Serialize, Deserialize, Debug, PartialEq, Clone)]
struct OptOpt {
	x: Option<Option<i32>>,
}

#[derive(BuildSchema, Serialize, Deserialize, Debug, PartialEq, Clone)]
struct Null(i32);
#[derive(BuildSchema, Serialize, Deserialize, Debug, PartialEq, Clone)]
struct OptNull {
	x: Option<Null>,
}

/// Avro: "Unions may not immediately contain other unions"
fn union_in_union(s: &SchemaMut) -> bool {
	s.nodes().iter().any(|n| match &n.type_ {
		RegularType::Union(u) => u.variants.iter().any(|k| {
			matches!(s.nodes().get(k.idx()).map(|n| &n.type_), Some(RegularType::Union(_)))
		}),
		_ => false,
	})
}

fn rt<T>(values: Vec<T>) -> Result<(), String>
where
	T: BuildSchema + Serialize + for<'a> Deserialize<'a> + std::fmt::Debug + PartialEq,
{
	let sm = T::schema_mut();
	if union_in_union(&sm) {
		return Err(format!(
			"derived schema has a union immediately inside a union: {}",
			serde_json::to_string(&sm).unwrap_or_default()
		));
	}
	let schema: serde_avro_fast::Schema = sm.try_into().map_err(|e| format!("freeze: {e}"))?;
	for v in values {
		let bytes = serde_avro_fast::to_datum_vec(&v, &mut serde_avro_fast::ser::SerializerConfig::new(&schema))
			.map_err(|e| format!("{v:?}: to_datum_vec failed: {e}"))?;
		let back: T = serde_avro_fast::from_datum_slice(&bytes, &schema)
			.map_err(|e| format!("{v:?}: from_datum_slice failed: {e}"))?;
		if back != v {
			return Err(format!("{v:?} written as {bytes:?} reads back as {back:?}"));
		}
	}
	Ok(())
}

pub fn run() -> String {
	let mut out = String::from("(ok");
	let mut one = |class: &str, r: Result<(), String>| match r {
		Ok(()) => out.push_str(&format!(" ({class} ok)")),
		Err(e) => out.push_str(&format!(" ({class} fail {})", e.replace(|c: char| c == '(' || c == ')' || c == '"' || c.is_whitespace(), "_"))),
	};
	one(
		"option-of-option",
		rt(vec![OptOpt { x: None }, OptOpt { x: Some(None) }, OptOpt { x: Some(Some(3)) }]),
	);
	one("newtype-named-null", rt(vec![OptNull { x: None }, OptNull { x: Some(Null(5)) }]));
	out.push(')');
	out
}
