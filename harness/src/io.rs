//! Schedule-controlled `BufRead` and `Write` implementations

use std::io::{self, BufRead, Read, Write};

/// A `BufRead` that hands out its data in chunks of the planned sizes
/// (the last size repeats; size 0 entries are skipped) and can fail at a given
/// `fill_buf`/`read` call index.
pub struct ChunkedReader {
	pub data: Vec<u8>,
	pub pos: usize,
	plan: Vec<usize>,
	plan_idx: usize,
	left_in_chunk: usize,
	pub calls: usize,
	pub fail_at_call: Option<usize>,
}

impl ChunkedReader {
	pub fn new(data: Vec<u8>, plan: Vec<usize>) -> Self {
		let plan: Vec<usize> = plan.into_iter().filter(|&n| n > 0).collect();
		let plan = if plan.is_empty() { vec![usize::MAX] } else { plan };
		let first = plan[0];
		ChunkedReader {
			data,
			pos: 0,
			plan,
			plan_idx: 0,
			left_in_chunk: first,
			calls: 0,
			fail_at_call: None,
		}
	}
	fn check_fail(&mut self) -> io::Result<()> {
		let c = self.calls;
		self.calls += 1;
		if self.fail_at_call == Some(c) {
			return Err(io::Error::new(io::ErrorKind::Other, "verif: injected read error"));
		}
		Ok(())
	}
	fn avail(&self) -> usize {
		self.left_in_chunk.min(self.data.len() - self.pos)
	}
	fn advance(&mut self, amt: usize) {
		self.pos += amt;
		self.left_in_chunk -= amt;
		if self.left_in_chunk == 0 {
			if self.plan_idx + 1 < self.plan.len() {
				self.plan_idx += 1;
			}
			self.left_in_chunk = self.plan[self.plan_idx];
		}
	}
	pub fn remaining(&self) -> usize {
		self.data.len() - self.pos
	}
}

impl Read for ChunkedReader {
	fn read(&mut self, buf: &mut [u8]) -> io::Result<usize> {
		self.check_fail()?;
		let n = self.avail().min(buf.len());
		buf[..n].copy_from_slice(&self.data[self.pos..self.pos + n]);
		self.advance(n);
		Ok(n)
	}
}
impl BufRead for ChunkedReader {
	fn fill_buf(&mut self) -> io::Result<&[u8]> {
		self.check_fail()?;
		let n = self.avail();
		Ok(&self.data[self.pos..self.pos + n])
	}
	fn consume(&mut self, amt: usize) {
		assert!(amt <= self.avail(), "consume beyond the current buffer");
		self.advance(amt);
	}
}

#[derive(Clone, Debug)]
pub enum WAns {
	Accept(usize),
	Interrupted,
	Zero,
	/// a hard error of the given kind (never `Interrupted`)
	Hard(io::ErrorKind),
}

/// error kinds a scheduled sink can answer with: `(h KIND)`; plain `h` = other
pub fn error_kind(name: &str) -> Option<io::ErrorKind> {
	use io::ErrorKind::*;
	Some(match name {
		"other" => Other,
		"wouldblock" => WouldBlock,
		"timedout" => TimedOut,
		"brokenpipe" => BrokenPipe,
		"writezero" => WriteZero,
		"unexpectedeof" => UnexpectedEof,
		"permissiondenied" => PermissionDenied,
		"connectionreset" => ConnectionReset,
		"connectionaborted" => ConnectionAborted,
		"notconnected" => NotConnected,
		"invalidinput" => InvalidInput,
		"invaliddata" => InvalidData,
		"outofmemory" => OutOfMemory,
		"unsupported" => Unsupported,
		"alreadyexists" => AlreadyExists,
		"notfound" => NotFound,
		"addrinuse" => AddrInUse,
		_ => return None,
	})
}

/// A `Write` whose answers follow a schedule (the last answer repeats).
/// `vectored` selects whether `write_vectored` gathers from several slices or
/// is the default (first non-empty slice only).
pub struct ScheduledWriter {
	pub out: Vec<u8>,
	sched: Vec<WAns>,
	idx: usize,
	pub vectored: bool,
	pub calls: usize,
	pub budget: Option<usize>,
}
impl ScheduledWriter {
	pub fn new(sched: Vec<WAns>, vectored: bool) -> Self {
		let sched = if sched.is_empty() {
			vec![WAns::Accept(usize::MAX)]
		} else {
			sched
		};
		ScheduledWriter {
			out: Vec::new(),
			sched,
			idx: 0,
			vectored,
			calls: 0,
			budget: None,
		}
	}
	fn next(&mut self) -> WAns {
		let a = self.sched[self.idx].clone();
		if self.idx + 1 < self.sched.len() {
			self.idx += 1;
		}
		self.calls += 1;
		a
	}
}
impl Write for ScheduledWriter {
	fn write(&mut self, buf: &[u8]) -> io::Result<usize> {
		if buf.is_empty() {
			return Ok(0);
		}
		if let Some(b) = self.budget {
			if b == 0 {
				return Err(io::Error::new(io::ErrorKind::Other, "verif: sink budget exhausted"));
			}
		}
		match self.next() {
			WAns::Accept(k) => {
				let mut n = k.max(1).min(buf.len());
				if let Some(b) = self.budget.as_mut() {
					n = n.min(*b);
					*b -= n;
				}
				self.out.extend_from_slice(&buf[..n]);
				Ok(n)
			}
			WAns::Interrupted => Err(io::Error::new(io::ErrorKind::Interrupted, "verif: interrupted")),
			WAns::Zero => Ok(0),
			WAns::Hard(kind) => Err(io::Error::new(kind, "verif: hard sink error")),
		}
	}
	fn write_vectored(&mut self, bufs: &[io::IoSlice<'_>]) -> io::Result<usize> {
		if !self.vectored {
			let buf = bufs.iter().find(|b| !b.is_empty()).map_or(&[][..], |b| &**b);
			return self.write(buf);
		}
		let total: usize = bufs.iter().map(|b| b.len()).sum();
		if total == 0 {
			return Ok(0);
		}
		match self.next() {
			WAns::Accept(k) => {
				let mut left = k.max(1).min(total);
				let n = left;
				for b in bufs {
					let t = left.min(b.len());
					self.out.extend_from_slice(&b[..t]);
					left -= t;
					if left == 0 {
						break;
					}
				}
				Ok(n)
			}
			WAns::Interrupted => Err(io::Error::new(io::ErrorKind::Interrupted, "verif: interrupted")),
			WAns::Zero => Ok(0),
			WAns::Hard(kind) => Err(io::Error::new(kind, "verif: hard sink error")),
		}
	}
	fn flush(&mut self) -> io::Result<()> {
		Ok(())
	}
}
