//! sexp <-> SchemaMut
//!
//! (schema (node TYPE LOGICAL) ...)
//! TYPE ::= null|boolean|int|long|float|double|bytes|string | (array K) | (map K)
//!        | (union K...) | (record xNAME (xFIELD K)...) | (enum xNAME xSYM...) | (fixed xNAME SIZE)
//! LOGICAL ::= none | (decimal SCALE PRECISION) | uuid | date | time-millis | time-micros
//!        | timestamp-millis | timestamp-micros | duration | big-decimal | (unknown xNAME)

use crate::sexp::{hex, Sx};
use serde_avro_fast::schema::*;

pub fn schema_from_sx(sx: &Sx) -> Result<SchemaMut, String> {
	let (h, nodes) = sx.head()?;
	if h != "schema" {
		return Err(format!("expected (schema ...), got {h}"));
	}
	let mut out = Vec::new();
	for n in nodes {
		out.push(node_from_sx(n)?);
	}
	Ok(SchemaMut::from_nodes(out))
}

pub fn node_from_sx(n: &Sx) -> Result<SchemaNode, String> {
	let (h, args) = n.head()?;
	if h != "node" || args.len() != 2 {
		return Err("expected (node TYPE LOGICAL)".into());
	}
	let ty = type_from_sx(&args[0])?;
	let lt = logical_from_sx(&args[1])?;
	Ok(match lt {
		None => SchemaNode::new(ty),
		Some(lt) => SchemaNode::with_logical_type(ty, lt),
	})
}

fn key(sx: &Sx) -> Result<SchemaKey, String> {
	Ok(SchemaKey::from_idx(sx.int::<usize>()?))
}

fn type_from_sx(sx: &Sx) -> Result<RegularType, String> {
	let (h, a) = sx.head()?;
	Ok(match h {
		"null" => RegularType::Null,
		"boolean" => RegularType::Boolean,
		"int" => RegularType::Int,
		"long" => RegularType::Long,
		"float" => RegularType::Float,
		"double" => RegularType::Double,
		"bytes" => RegularType::Bytes,
		"string" => RegularType::String,
		"array" => RegularType::Array(Array::new(key(&a[0])?)),
		"map" => RegularType::Map(Map::new(key(&a[0])?)),
		"union" => RegularType::Union(Union::new(
			a.iter().map(key).collect::<Result<Vec<_>, _>>()?,
		)),
		"record" => {
			let name = Name::from_fully_qualified_name(a[0].string()?);
			let mut fields = Vec::new();
			for f in &a[1..] {
				let l = f.list()?;
				fields.push(RecordField::new(l[0].string()?, key(&l[1])?));
			}
			RegularType::Record(Record::new(name, fields))
		}
		"enum" => {
			let name = Name::from_fully_qualified_name(a[0].string()?);
			let syms = a[1..]
				.iter()
				.map(|s| s.string())
				.collect::<Result<Vec<_>, _>>()?;
			RegularType::Enum(Enum::new(name, syms))
		}
		"fixed" => {
			let name = Name::from_fully_qualified_name(a[0].string()?);
			RegularType::Fixed(Fixed::new(name, a[1].int::<usize>()?))
		}
		other => return Err(format!("unknown type {other}")),
	})
}

fn logical_from_sx(sx: &Sx) -> Result<Option<LogicalType>, String> {
	let (h, a) = sx.head()?;
	Ok(Some(match h {
		"none" => return Ok(None),
		"decimal" => LogicalType::Decimal(Decimal::new(a[0].int::<u32>()?, a[1].int::<usize>()?)),
		"uuid" => LogicalType::Uuid,
		"date" => LogicalType::Date,
		"time-millis" => LogicalType::TimeMillis,
		"time-micros" => LogicalType::TimeMicros,
		"timestamp-millis" => LogicalType::TimestampMillis,
		"timestamp-micros" => LogicalType::TimestampMicros,
		"duration" => LogicalType::Duration,
		"big-decimal" => LogicalType::BigDecimal,
		"unknown" => LogicalType::Unknown(UnknownLogicalType::new(a[0].string()?)),
		other => return Err(format!("unknown logical type {other}")),
	}))
}

pub fn schema_to_sx(s: &SchemaMut) -> String {
	let mut out = String::from("(schema");
	for n in s.nodes() {
		out.push_str(" (node ");
		match &n.type_ {
			RegularType::Null => out.push_str("null"),
			RegularType::Boolean => out.push_str("boolean"),
			RegularType::Int => out.push_str("int"),
			RegularType::Long => out.push_str("long"),
			RegularType::Float => out.push_str("float"),
			RegularType::Double => out.push_str("double"),
			RegularType::Bytes => out.push_str("bytes"),
			RegularType::String => out.push_str("string"),
			RegularType::Array(a) => out.push_str(&format!("(array {})", a.items.idx())),
			RegularType::Map(m) => out.push_str(&format!("(map {})", m.values.idx())),
			RegularType::Union(u) => {
				out.push_str("(union");
				for k in &u.variants {
					out.push_str(&format!(" {}", k.idx()));
				}
				out.push(')');
			}
			RegularType::Record(r) => {
				out.push_str(&format!(
					"(record {}",
					hex(r.name.fully_qualified_name().as_bytes())
				));
				for f in &r.fields {
					out.push_str(&format!(" ({} {})", hex(f.name.as_bytes()), f.type_.idx()));
				}
				out.push(')');
			}
			RegularType::Enum(e) => {
				out.push_str(&format!(
					"(enum {}",
					hex(e.name.fully_qualified_name().as_bytes())
				));
				for s in &e.symbols {
					out.push_str(&format!(" {}", hex(s.as_bytes())));
				}
				out.push(')');
			}
			RegularType::Fixed(f) => out.push_str(&format!(
				"(fixed {} {})",
				hex(f.name.fully_qualified_name().as_bytes()),
				f.size
			)),
		}
		out.push(' ');
		match &n.logical_type {
			None => out.push_str("none"),
			Some(LogicalType::Decimal(d)) => {
				out.push_str(&format!("(decimal {} {})", d.scale, d.precision))
			}
			Some(LogicalType::Unknown(u)) => {
				out.push_str(&format!("(unknown {})", hex(u.as_str().as_bytes())))
			}
			Some(lt) => out.push_str(lt.as_str()),
		}
		out.push(')');
	}
	out.push(')');
	out
}
