//! A universal `Serialize` value: the tree of `Serializer` method calls.
//!
//! SVAL ::= (bool 0|1) | (i8 N) .. (i128 N) | (u8 N) .. (u128 N) | (f32 BITS) | (f64 BITS)
//!   | (char CP) | (str xS) | (bytes xB) | none | (some V) | unit | (unit_struct xN)
//!   | (unit_variant xE IDX xV) | (newtype_struct xN V) | (newtype_variant xE IDX xV V)
//!   | (seq LEN|none V...) | (tuple V...) | (tuple_struct xN V...) | (tuple_variant xE IDX xV V...)
//!   | (map LEN|none CALL...)   CALL ::= (entry K V) | (key K) | (value V)
//!   | (struct xN LEN (xF V)...) | (struct_variant xE IDX xV LEN (xF V)...) | fail
//!   | (skipfield xF) inside struct field lists = SerializeStruct::skip_field

use crate::sexp::Sx;
use serde::ser::*;
use std::{collections::HashMap, sync::Mutex};

pub fn intern(s: &str) -> &'static str {
	static TABLE: Mutex<Option<HashMap<String, &'static str>>> = Mutex::new(None);
	let mut g = TABLE.lock().unwrap();
	let t = g.get_or_insert_with(HashMap::new);
	if let Some(v) = t.get(s) {
		return v;
	}
	let leaked: &'static str = Box::leak(s.to_owned().into_boxed_str());
	t.insert(s.to_owned(), leaked);
	leaked
}

#[derive(Clone, Debug)]
pub enum SVal {
	Bool(bool),
	I8(i8),
	I16(i16),
	I32(i32),
	I64(i64),
	I128(i128),
	U8(u8),
	U16(u16),
	U32(u32),
	U64(u64),
	U128(u128),
	F32(u32),
	F64(u64),
	Char(char),
	Str(String),
	Bytes(Vec<u8>),
	None,
	Some(Box<SVal>),
	Unit,
	UnitStruct(&'static str),
	UnitVariant(&'static str, u32, &'static str),
	NewtypeStruct(&'static str, Box<SVal>),
	NewtypeVariant(&'static str, u32, &'static str, Box<SVal>),
	Seq(Option<usize>, Vec<SVal>),
	Tuple(Vec<SVal>),
	TupleStruct(&'static str, Vec<SVal>),
	TupleVariant(&'static str, u32, &'static str, Vec<SVal>),
	Map(Option<usize>, Vec<MapCall>),
	Struct(&'static str, usize, Vec<(&'static str, SVal)>),
	StructVariant(&'static str, u32, &'static str, usize, Vec<(&'static str, SVal)>),
	Fail,
	/// only as the "value" of a struct field entry `(skipfield xF)`: SerializeStruct::skip_field
	SkipField,
}

#[derive(Clone, Debug)]
pub enum MapCall {
	Entry(SVal, SVal),
	Key(SVal),
	Value(SVal),
}

fn name(sx: &Sx) -> Result<&'static str, String> {
	Ok(intern(&sx.string()?))
}

impl SVal {
	pub fn from_sx(sx: &Sx) -> Result<SVal, String> {
		let (h, a) = sx.head()?;
		let many = |a: &[Sx]| a.iter().map(SVal::from_sx).collect::<Result<Vec<_>, _>>();
		let fields = |a: &[Sx]| {
			a.iter()
				.map(|f| {
					let l = f.list()?;
					if l.len() == 2 && matches!(&l[0], Sx::A(a) if a == "skipfield") {
						// SerializeStruct::skip_field(name): what a derived impl calls for a field left out by skip_serializing_if
						return Ok((name(&l[1])?, SVal::SkipField));
					}
					Ok((name(&l[0])?, SVal::from_sx(&l[1])?))
				})
				.collect::<Result<Vec<_>, String>>()
		};
		let optlen = |s: &Sx| -> Result<Option<usize>, String> {
			if s.atom()? == "none" {
				Ok(None)
			} else {
				Ok(Some(s.int::<usize>()?))
			}
		};
		Ok(match h {
			"bool" => SVal::Bool(a[0].int::<u8>()? != 0),
			"i8" => SVal::I8(a[0].int()?),
			"i16" => SVal::I16(a[0].int()?),
			"i32" => SVal::I32(a[0].int()?),
			"i64" => SVal::I64(a[0].int()?),
			"i128" => SVal::I128(a[0].int()?),
			"u8" => SVal::U8(a[0].int()?),
			"u16" => SVal::U16(a[0].int()?),
			"u32" => SVal::U32(a[0].int()?),
			"u64" => SVal::U64(a[0].int()?),
			"u128" => SVal::U128(a[0].int()?),
			"f32" => SVal::F32(a[0].int()?),
			"f64" => SVal::F64(a[0].int()?),
			"char" => SVal::Char(
				char::from_u32(a[0].int::<u32>()?).ok_or_else(|| "bad char".to_string())?,
			),
			"str" => SVal::Str(a[0].string()?),
			"bytes" => SVal::Bytes(a[0].bytes()?),
			"none" => SVal::None,
			"some" => SVal::Some(Box::new(SVal::from_sx(&a[0])?)),
			"unit" => SVal::Unit,
			"unit_struct" => SVal::UnitStruct(name(&a[0])?),
			"unit_variant" => SVal::UnitVariant(name(&a[0])?, a[1].int()?, name(&a[2])?),
			"newtype_struct" => SVal::NewtypeStruct(name(&a[0])?, Box::new(SVal::from_sx(&a[1])?)),
			"newtype_variant" => SVal::NewtypeVariant(
				name(&a[0])?,
				a[1].int()?,
				name(&a[2])?,
				Box::new(SVal::from_sx(&a[3])?),
			),
			"seq" => SVal::Seq(optlen(&a[0])?, many(&a[1..])?),
			"tuple" => SVal::Tuple(many(a)?),
			"tuple_struct" => SVal::TupleStruct(name(&a[0])?, many(&a[1..])?),
			"tuple_variant" => {
				SVal::TupleVariant(name(&a[0])?, a[1].int()?, name(&a[2])?, many(&a[3..])?)
			}
			"map" => {
				let mut calls = Vec::new();
				for c in &a[1..] {
					let (ch, ca) = c.head()?;
					calls.push(match ch {
						"entry" => MapCall::Entry(SVal::from_sx(&ca[0])?, SVal::from_sx(&ca[1])?),
						"key" => MapCall::Key(SVal::from_sx(&ca[0])?),
						"value" => MapCall::Value(SVal::from_sx(&ca[0])?),
						other => return Err(format!("bad map call {other}")),
					});
				}
				SVal::Map(optlen(&a[0])?, calls)
			}
			"struct" => SVal::Struct(name(&a[0])?, a[1].int()?, fields(&a[2..])?),
			"struct_variant" => SVal::StructVariant(
				name(&a[0])?,
				a[1].int()?,
				name(&a[2])?,
				a[3].int()?,
				fields(&a[4..])?,
			),
			"fail" => SVal::Fail,
			other => return Err(format!("unknown sval {other}")),
		})
	}
}

impl Serialize for SVal {
	fn serialize<S: Serializer>(&self, s: S) -> Result<S::Ok, S::Error> {
		match self {
			SVal::Bool(v) => s.serialize_bool(*v),
			SVal::I8(v) => s.serialize_i8(*v),
			SVal::I16(v) => s.serialize_i16(*v),
			SVal::I32(v) => s.serialize_i32(*v),
			SVal::I64(v) => s.serialize_i64(*v),
			SVal::I128(v) => s.serialize_i128(*v),
			SVal::U8(v) => s.serialize_u8(*v),
			SVal::U16(v) => s.serialize_u16(*v),
			SVal::U32(v) => s.serialize_u32(*v),
			SVal::U64(v) => s.serialize_u64(*v),
			SVal::U128(v) => s.serialize_u128(*v),
			SVal::F32(v) => s.serialize_f32(f32::from_bits(*v)),
			SVal::F64(v) => s.serialize_f64(f64::from_bits(*v)),
			SVal::Char(v) => s.serialize_char(*v),
			SVal::Str(v) => s.serialize_str(v),
			SVal::Bytes(v) => s.serialize_bytes(v),
			SVal::None => s.serialize_none(),
			SVal::Some(v) => s.serialize_some(&**v),
			SVal::Unit => s.serialize_unit(),
			SVal::UnitStruct(n) => s.serialize_unit_struct(n),
			SVal::UnitVariant(e, i, v) => s.serialize_unit_variant(e, *i, v),
			SVal::NewtypeStruct(n, v) => s.serialize_newtype_struct(n, &**v),
			SVal::NewtypeVariant(e, i, vn, v) => s.serialize_newtype_variant(e, *i, vn, &**v),
			SVal::Seq(len, vs) => {
				let mut q = s.serialize_seq(*len)?;
				for v in vs {
					q.serialize_element(v)?;
				}
				q.end()
			}
			SVal::Tuple(vs) => {
				let mut q = s.serialize_tuple(vs.len())?;
				for v in vs {
					q.serialize_element(v)?;
				}
				q.end()
			}
			SVal::TupleStruct(n, vs) => {
				let mut q = s.serialize_tuple_struct(n, vs.len())?;
				for v in vs {
					q.serialize_field(v)?;
				}
				q.end()
			}
			SVal::TupleVariant(e, i, vn, vs) => {
				let mut q = s.serialize_tuple_variant(e, *i, vn, vs.len())?;
				for v in vs {
					q.serialize_field(v)?;
				}
				q.end()
			}
			SVal::Map(len, calls) => {
				let mut m = s.serialize_map(*len)?;
				for c in calls {
					match c {
						MapCall::Entry(k, v) => m.serialize_entry(k, v)?,
						MapCall::Key(k) => m.serialize_key(k)?,
						MapCall::Value(v) => m.serialize_value(v)?,
					}
				}
				m.end()
			}
			SVal::Struct(n, len, fs) => {
				let mut m = s.serialize_struct(n, *len)?;
				for (k, v) in fs {
					if matches!(v, SVal::SkipField) {
						m.skip_field(k)?;
					} else {
						m.serialize_field(k, v)?;
					}
				}
				m.end()
			}
			SVal::StructVariant(e, i, vn, len, fs) => {
				let mut m = s.serialize_struct_variant(e, *i, vn, *len)?;
				for (k, v) in fs {
					if matches!(v, SVal::SkipField) {
						m.skip_field(k)?;
					} else {
						m.serialize_field(k, v)?;
					}
				}
				m.end()
			}
			SVal::Fail => Err(S::Error::custom("verif: Serialize impl failed")),
			SVal::SkipField => Err(S::Error::custom("verif: (skipfield ..) outside a struct field list")),
		}
	}
}
