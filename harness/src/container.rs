//! Object container file commands: writer histories over a scheduled sink, reader runs over
//! slices / chunked readers.

use crate::dtarget::{DTarget, DVal};
use crate::io::{ChunkedReader, ScheduledWriter, WAns};
use crate::sexp::{hex, Sx};
use crate::sval::SVal;
use serde_avro_fast::object_container_file_encoding::*;

fn esc(s: &str) -> String {
	hex(s.as_bytes())
}

pub fn compression(sx: &Sx) -> Result<Compression, String> {
	// null | (deflate L) | (bzip2 L) | snappy | (xz L) | (zstandard L)   L ::= default | 1..
	let (h, a) = sx.head()?;
	let level = |a: &[Sx]| -> Result<CompressionLevel, String> {
		match a.first() {
			None => Ok(CompressionLevel::default()),
			Some(l) if l.atom()? == "default" => Ok(CompressionLevel::default()),
			Some(l) => Ok(CompressionLevel::new(l.int::<u8>()?)),
		}
	};
	Ok(match h {
		"null" => Compression::Null,
		"deflate" => Compression::Deflate { level: level(a)? },
		"bzip2" => Compression::Bzip2 { level: level(a)? },
		"snappy" => Compression::Snappy,
		"xz" => Compression::Xz { level: level(a)? },
		"zstandard" => Compression::Zstandard { level: level(a)? },
		other => return Err(format!("unknown codec {other}")),
	})
}

fn sink(sx: &Sx) -> Result<ScheduledWriter, String> {
	// vec | (sched VECTORED ANS...) ; ANS ::= (a K) | i | z | h | (h KIND)   KIND: see io::error_kind
	let (h, a) = sx.head()?;
	match h {
		"vec" => Ok(ScheduledWriter::new(vec![], true)),
		"sched" => {
			let vectored = a[0].int::<u8>()? != 0;
			let mut sched = Vec::new();
			for x in &a[1..] {
				let (xh, xa) = x.head()?;
				sched.push(match xh {
					"a" => WAns::Accept(xa[0].int::<usize>()?),
					"i" => WAns::Interrupted,
					"z" => WAns::Zero,
					"h" => WAns::Hard(match xa.first() {
						None => std::io::ErrorKind::Other,
						Some(k) => crate::io::error_kind(k.atom()?).ok_or_else(|| format!("bad error kind {k:?}"))?,
					}),
					other => return Err(format!("bad answer {other}")),
				});
			}
			Ok(ScheduledWriter::new(sched, vectored))
		}
		other => Err(format!("bad sink {other}")),
	}
}

#[derive(Clone)]
struct SharedSink(std::rc::Rc<std::cell::RefCell<ScheduledWriter>>);
impl std::io::Write for SharedSink {
	fn write(&mut self, buf: &[u8]) -> std::io::Result<usize> {
		self.0.borrow_mut().write(buf)
	}
	fn write_vectored(&mut self, bufs: &[std::io::IoSlice<'_>]) -> std::io::Result<usize> {
		self.0.borrow_mut().write_vectored(bufs)
	}
	fn flush(&mut self) -> std::io::Result<()> {
		Ok(())
	}
}

struct Meta(Vec<(String, Vec<u8>)>);
impl serde::Serialize for Meta {
	fn serialize<S: serde::Serializer>(&self, s: S) -> Result<S::Ok, S::Error> {
		use serde::ser::SerializeMap;
		let mut m = s.serialize_map(Some(self.0.len()))?;
		for (k, v) in &self.0 {
			m.serialize_entry(k, serde_bytes::Bytes::new(v))?;
		}
		m.end()
	}
}

/// cw SCHEMA CODEC BLOCKSIZE xSYNC16 SINK (meta (xK xV)...) OP...
/// OP ::= (ser SVAL) | (push xBYTES N) | finish | into_inner | drop
/// -> (ok BUILD (OPRES SINKLEN CALLS)... xSINK)
pub fn cmd_cw(a: &[Sx]) -> Result<String, String> {
	let schema = crate::get_schema(&a[0])?;
	let comp = compression(&a[1])?;
	let block_size: u32 = a[2].int()?;
	let sync: [u8; 16] = a[3].bytes()?.try_into().map_err(|_| "sync marker must be 16 bytes")?;
	let w = SharedSink(std::rc::Rc::new(std::cell::RefCell::new(sink(&a[4])?)));
	let (mh, ma) = a[5].head()?;
	if mh != "meta" {
		return Err("expected (meta ...)".into());
	}
	let mut meta = Vec::new();
	for kv in ma {
		let l = kv.list()?;
		meta.push((l[0].string()?, l[1].bytes()?));
	}
	let ops = &a[6..];
	let mut cfg = serde_avro_fast::ser::SerializerConfig::new(&schema);
	let mut out = String::from("(ok ");
	// the sink is owned by the Writer; we observe it through inner()
	let builder = WriterBuilder::new(&mut cfg)
		.compression(comp)
		.approx_block_size(block_size)
		.sync_marker(sync);
	let sink_ref = w.clone();
	let built = if meta.is_empty() {
		builder.build(w.clone())
	} else {
		builder.build_with_user_metadata(w.clone(), Meta(meta))
	};
	let snapshot = |s: SharedSink| -> (usize, usize) {
		let b = s.0.borrow();
		(b.out.len(), b.calls)
	};
	let mut writer = match built {
		Err(e) => {
			let (l, c) = snapshot(sink_ref.clone());
			return Ok(format!("(build-err {} {l} {c} {})", esc(&e.to_string()), hex(&w.0.borrow().out)));
		}
		Ok(wr) => {
			let (l, c) = snapshot(sink_ref.clone());
			out.push_str(&format!("(built {l} {c})"));
			Some(wr)
		}
	};
	for op in ops {
		let (oh, oa) = op.head()?;
		let res: String = match (oh, writer.as_mut()) {
			(_, None) => "gone".into(),
			("ser", Some(wr)) => {
				let v = SVal::from_sx(&oa[0])?;
				match wr.serialize(&v) {
					Ok(()) => "ok".into(),
					Err(e) => format!("(err {})", esc(&e.to_string())),
				}
			}
			("push", Some(wr)) => match wr.push_serialized(&oa[0].bytes()?, oa[1].int::<u64>()?) {
				Ok(()) => "ok".into(),
				Err(e) => format!("(err {})", esc(&e.to_string())),
			},
			("finish", Some(wr)) => match wr.finish_block() {
				Ok(()) => "ok".into(),
				Err(e) => format!("(err {})", esc(&e.to_string())),
			},
			("into_inner", Some(_)) => {
				let wr = writer.take().unwrap();
				// a failing into_inner drops the writer, whose Drop flushes again and (debug
				// assertions) panics when that fails too: observed as a result, not a crash
				match std::panic::catch_unwind(std::panic::AssertUnwindSafe(move || wr.into_inner())) {
					Ok(Ok(_)) => "ok".into(),
					Ok(Err(e)) => format!("(err {})", esc(&e.to_string())),
					Err(_) => "(err-then-drop-panic)".into(),
				}
			}
			("drop", Some(_)) => {
				let wr = writer.take().unwrap();
				match std::panic::catch_unwind(std::panic::AssertUnwindSafe(move || drop(wr))) {
					Ok(()) => "ok".into(),
					Err(_) => "(drop-panic)".into(),
				}
			}
			(other, _) => return Err(format!("bad op {other}")),
		};
		let (l, c) = snapshot(sink_ref.clone());
		out.push_str(&format!(" ({res} {l} {c})"));
	}
	if let Some(wr) = writer.take() {
		// leave without flushing anything further: the history decides what is flushed
		std::mem::forget(wr);
	}
	out.push_str(&format!(" {})", hex(&w.0.borrow().out)));
	Ok(out)
}

/// cwh START <the arguments of cw>: `cw` with the starting length of the encode loops' output buffer (hook H3)
/// set to START for the run (the crate's value is 32768), so that small blocks already make the deflate / bzip2 /
/// xz loops grow their buffer several times. Same output as `cw`.
pub fn cmd_cwh(a: &[Sx]) -> Result<String, String> {
	let start: usize = a[0].int()?;
	if start == 0 {
		return Err("START must be >= 1".into());
	}
	verif_h3::set_start_len(start);
	let _ = verif_h3::take_trace();
	let r = std::panic::catch_unwind(std::panic::AssertUnwindSafe(|| cmd_cw(&a[1..])));
	verif_h3::set_start_len(32 * 1024);
	let _ = verif_h3::take_trace();
	match r {
		Ok(r) => r,
		Err(e) => std::panic::resume_unwind(e),
	}
}

/// blockdec CODEC xDATA...: the data of container blocks decompressed by the compression crates' own decoders
/// (flate2 / bzip2 / xz2 / zstd read adapters, snap's raw decoder on the block without its 4 trailing CRC bytes),
/// not by the crate under test. -> (ok (dec xPAYLOAD) | bad ...)
pub fn cmd_blockdec(a: &[Sx]) -> Result<String, String> {
	let codec = a[0].atom()?.to_owned();
	let mut out = String::from("(ok");
	for d in &a[1..] {
		let data = d.bytes()?;
		match crate::codecloop::decode(&codec, &data) {
			Some(p) => out.push_str(&format!(" (dec {})", hex(&p))),
			None => out.push_str(" bad"),
		}
	}
	out.push(')');
	Ok(out)
}

pub(crate) struct MetaOut(pub(crate) Vec<(String, Vec<u8>)>);
impl<'de> serde::Deserialize<'de> for MetaOut {
	fn deserialize<D: serde::Deserializer<'de>>(d: D) -> Result<Self, D::Error> {
		struct V;
		impl<'de> serde::de::Visitor<'de> for V {
			type Value = MetaOut;
			fn expecting(&self, f: &mut std::fmt::Formatter) -> std::fmt::Result {
				write!(f, "metadata map")
			}
			fn visit_map<A: serde::de::MapAccess<'de>>(self, mut m: A) -> Result<MetaOut, A::Error> {
				let mut out = Vec::new();
				while let Some(k) = m.next_key::<String>()? {
					let v: serde_bytes::ByteBuf = m.next_value()?;
					out.push((k, v.into_vec()));
				}
				Ok(MetaOut(out))
			}
		}
		d.deserialize_map(V)
	}
}

pub(crate) fn fmt_item(r: Result<Option<DVal>, serde_avro_fast::de::DeError>) -> (String, bool) {
	match r {
		Ok(Some(d)) => (format!("(ok {d})"), false),
		Ok(None) => ("eof".into(), true),
		Err(e) => (
			format!(
				"(err {} {})",
				if e.io_error().is_some() { "io" } else { "data" },
				esc(&e.to_string())
			),
			false,
		),
	}
}

pub(crate) fn open_err(e: FailedToInitializeReader) -> String {
	let kind = match &e {
		FailedToInitializeReader::NotAvroObjectContainerFile => "magic",
		FailedToInitializeReader::FailedToDeserializeHeader(_) => "header",
		FailedToInitializeReader::FailedToParseSchema(_) => "schema",
	};
	format!("(open-err {kind} {})", esc(&e.to_string()))
}
pub(crate) fn fmt_meta(m: &MetaOut) -> String {
	let mut kv: Vec<_> = m.0.iter().collect();
	kv.sort();
	let mut s = String::from("(meta");
	for (k, v) in kv {
		s.push_str(&format!(" ({} {})", esc(k), hex(v)));
	}
	s.push(')');
	s
}

/// cr xFILE MODE TARGET MAXCALLS [FAILAT] [(alloc N)]
/// MODE ::= slice | (chunks N...) ; reads until eof has been seen twice or MAXCALLS
/// (alloc N): the ReaderRead handed to the container reader gets max_alloc_size = N (chunks mode; the slice reader has no
/// cap) and the allocations made inside the `deserialize_seed_next` calls are counted: a last element (allocs LARGEST)
/// -> (ok xSCHEMAJSON (meta (xK xV)...) ITEM... [(allocs LARGEST)]) | (open-err KIND xMSG)
pub fn cmd_cr(a: &[Sx]) -> Result<String, String> {
	let file = a[0].bytes()?;
	let (mh, ma) = a[1].head()?;
	let target = DTarget::from_sx(&a[2])?;
	let max_calls: usize = a[3].int()?;
	let mut fail_at: Option<usize> = None;
	let mut max_alloc: Option<usize> = None;
	for x in a.iter().skip(4) {
		if let Ok(("alloc", aa)) = x.head() {
			max_alloc = Some(aa[0].int()?);
		} else {
			fail_at = Some(x.int()?);
		}
	}
	let mut out = String::new();
	macro_rules! drive {
		($reader:expr, $meta:expr) => {{
			let mut reader = $reader;
			out.push_str(&format!("(ok {} {}", esc(reader.schema().json()), fmt_meta(&$meta)));
			let mut eofs = 0;
			if max_alloc.is_some() {
				crate::ALLOCS.with(|c| c.set((0, 0)));
			}
			for _ in 0..max_calls {
				crate::COUNTING.with(|c| c.set(max_alloc.is_some()));
				let item = reader.deserialize_seed_next(&target);
				crate::COUNTING.with(|c| c.set(false));
				let (s, eof) = fmt_item(item);
				out.push(' ');
				out.push_str(&s);
				if eof {
					eofs += 1;
					if eofs >= 2 {
						break;
					}
				}
			}
			if max_alloc.is_some() {
				out.push_str(&format!(" (allocs {})", crate::ALLOCS.with(|c| c.get()).1));
			}
			out.push(')');
		}};
	}
	match mh {
		"slice" => {
			crate::dtarget::INPUT.with(|c| c.set((file.as_ptr() as usize, file.len())));
			match Reader::new_and_metadata::<MetaOut>(serde_avro_fast::de::read::SliceRead::new(&file)) {
				Err(e) => out = open_err(e),
				Ok((r, m)) => drive!(r, m),
			}
			crate::dtarget::INPUT.with(|c| c.set((0, 0)));
		}
		"chunks" => {
			let plan = ma.iter().map(|s| s.int::<usize>()).collect::<Result<Vec<_>, _>>()?;
			let mut cr = ChunkedReader::new(file.clone(), plan);
			cr.fail_at_call = fail_at;
			let mut rr = serde_avro_fast::de::read::ReaderRead::new(cr);
			if let Some(m) = max_alloc {
				rr.max_alloc_size = m;
			}
			match Reader::new_and_metadata::<MetaOut>(rr) {
				Err(e) => out = open_err(e),
				Ok((r, m)) => drive!(r, m),
			}
		}
		other => return Err(format!("unknown mode {other}")),
	}
	Ok(out)
}
