//! codecloop: the encode loops of writer/compression.rs observed through hook H3.
//!
//! codecloop CODEC LEVEL START xINPUT...
//!   CODEC ::= deflate | bzip2 | xz | snappy | zstandard ; LEVEL ::= default | 1.. ; START = starting length
//!   of the loops' output buffer (hook H3; the crate's default is 32768). Every INPUT becomes one block of ONE
//!   container writer (push_serialized(INPUT, 1) then finish_block), so the codec state -- and with it the output
//!   buffer of the loops -- is reused from block to block exactly as in the crate.
//! -> (ok (block RES (trace (INLEN FREE STATUS CONSUMED PRODUCED_TOTAL)...) xBLOCK REF DEC)...)
//!   RES  ::= ok | (err xMSG) | panic | gone
//!   REF  ::= (ref same|differs|na): the block compared with ONE call of the library itself (same parameters, an
//!            output buffer larger than any block): the complete stream `enc x`, independent of the loop
//!   DEC  ::= (dec ok|bad|na): the block decompressed by the library's own decoder (not the crate's reader) = INPUT

use crate::sexp::{hex, Sx};
use serde_avro_fast::object_container_file_encoding::*;
use std::io::Read;

fn read_varint(b: &[u8], pos: &mut usize) -> Option<i64> {
	let mut v: u64 = 0;
	let mut shift = 0;
	loop {
		let x = *b.get(*pos)?;
		*pos += 1;
		v |= ((x & 0x7f) as u64) << shift;
		if x & 0x80 == 0 {
			break;
		}
		shift += 7;
		if shift > 63 {
			return None;
		}
	}
	Some(((v >> 1) as i64) ^ -((v & 1) as i64))
}

/// One call of the library with Finish and a buffer that is large enough: the complete stream
fn reference(codec: &str, level: Option<u8>, input: &[u8]) -> Option<Vec<u8>> {
	let cap = input.len() * 2 + 65536;
	let mut out = vec![0u8; cap];
	match codec {
		"deflate" => {
			let lvl = match level {
				None => flate2::Compression::default(),
				Some(l) => flate2::Compression::new(l.min(9) as u32),
			};
			let mut c = flate2::Compress::new(lvl, false);
			match c.compress(input, &mut out, flate2::FlushCompress::Finish) {
				Ok(flate2::Status::StreamEnd) => {}
				_ => return None,
			}
			out.truncate(c.total_out() as usize);
			Some(out)
		}
		"bzip2" => {
			let lvl = match level {
				None => bzip2::Compression::default(),
				Some(l) => bzip2::Compression::new(l.min(9) as u32),
			};
			let mut c = bzip2::Compress::new(lvl, 30);
			match c.compress(input, &mut out, bzip2::Action::Finish) {
				Ok(bzip2::Status::StreamEnd) => {}
				_ => return None,
			}
			out.truncate(c.total_out() as usize);
			Some(out)
		}
		"xz" => {
			let lvl = match level {
				None => 6,
				Some(l) => l.min(9) as u32,
			};
			let mut c = xz2::stream::Stream::new_easy_encoder(lvl, xz2::stream::Check::Crc64).ok()?;
			match c.process(input, &mut out, xz2::stream::Action::Finish) {
				Ok(xz2::stream::Status::StreamEnd) => {}
				_ => return None,
			}
			out.truncate(c.total_out() as usize);
			Some(out)
		}
		_ => None,
	}
}

pub(crate) fn decode(codec: &str, block: &[u8]) -> Option<Vec<u8>> {
	let mut out = Vec::new();
	match codec {
		"null" => {
			out = block.to_vec();
		}
		"deflate" => {
			flate2::read::DeflateDecoder::new(block).read_to_end(&mut out).ok()?;
		}
		"bzip2" => {
			bzip2::read::BzDecoder::new(block).read_to_end(&mut out).ok()?;
		}
		"xz" => {
			xz2::read::XzDecoder::new(block).read_to_end(&mut out).ok()?;
		}
		"zstandard" => {
			out = zstd::stream::decode_all(block).ok()?;
		}
		"snappy" => {
			// the framing (4 trailing bytes) is checked on the Python side; here only the raw codec
			if block.len() < 4 {
				return None;
			}
			out = snap::raw::Decoder::new().decompress_vec(&block[..block.len() - 4]).ok()?;
		}
		_ => return None,
	}
	Some(out)
}

pub fn cmd_codecloop(a: &[Sx]) -> Result<String, String> {
	let codec = a[0].atom()?.to_owned();
	let level: Option<u8> = if a[1].atom()? == "default" { None } else { Some(a[1].int::<u8>()?) };
	let start: usize = a[2].int()?;
	let lvl = match level {
		None => CompressionLevel::default(),
		Some(l) => CompressionLevel::new(l),
	};
	let comp = match codec.as_str() {
		"deflate" => Compression::Deflate { level: lvl },
		"bzip2" => Compression::Bzip2 { level: lvl },
		"xz" => Compression::Xz { level: lvl },
		"snappy" => Compression::Snappy,
		"zstandard" => Compression::Zstandard { level: lvl },
		other => return Err(format!("unknown codec {other}")),
	};
	let inputs = a[3..].iter().map(|s| s.bytes()).collect::<Result<Vec<_>, _>>()?;
	let schema: serde_avro_fast::Schema = "\"bytes\"".parse().map_err(|e| format!("{e}"))?;
	let mut cfg = serde_avro_fast::ser::SerializerConfig::new(&schema);
	verif_h3::set_start_len(start);
	let _ = verif_h3::take_trace();
	let built = WriterBuilder::new(&mut cfg)
		.compression(comp)
		.approx_block_size(u32::MAX)
		.sync_marker([7u8; 16])
		.build(Vec::<u8>::new());
	let mut writer = match built {
		Ok(w) => Some(w),
		Err(e) => {
			verif_h3::set_start_len(32 * 1024);
			return Ok(format!("(build-err {})", hex(e.to_string().as_bytes())));
		}
	};
	let mut out = String::from("(ok");
	for input in &inputs {
		let Some(wr) = writer.as_mut() else {
			out.push_str(" (block gone (trace) x (ref na) (dec na))");
			continue;
		};
		let before = wr.inner().len();
		let r = std::panic::catch_unwind(std::panic::AssertUnwindSafe(|| {
			wr.push_serialized(input, 1)?;
			wr.finish_block()
		}));
		let trace = verif_h3::take_trace();
		let mut tr = String::from("(trace");
		for c in &trace {
			tr.push_str(&format!(" ({} {} {} {} {})", c.input_len, c.free, c.status, c.consumed, c.produced_total));
		}
		tr.push(')');
		match r {
			Err(_) => {
				// the writer is not used after a panic
				if let Some(w) = writer.take() {
					std::mem::forget(w);
				}
				out.push_str(&format!(" (block panic {tr} x (ref na) (dec na))"));
			}
			Ok(Err(e)) => {
				out.push_str(&format!(" (block (err {}) {tr} x (ref na) (dec na))", hex(e.to_string().as_bytes())));
			}
			Ok(Ok(())) => {
				let file = &wr.inner()[before..];
				let mut pos = 0;
				let count = read_varint(file, &mut pos);
				let size = read_varint(file, &mut pos);
				let block = match (count, size) {
					(Some(1), Some(n)) if n >= 0 && pos + n as usize + 16 == file.len() && file[pos + n as usize..] == [7u8; 16] => {
						&file[pos..pos + n as usize]
					}
					_ => {
						out.push_str(&format!(" (block (bad-layout {}) {tr} x (ref na) (dec na))", hex(file)));
						continue;
					}
				};
				let rf = match reference(&codec, level, input) {
					None => "na",
					Some(r) if r == block => "same",
					Some(_) => "differs",
				};
				let dc = match decode(&codec, block) {
					None => "bad",
					Some(d) if &d == input => "ok",
					Some(_) => "bad",
				};
				out.push_str(&format!(" (block ok {tr} {} (ref {rf}) (dec {dc}))", hex(block)));
			}
		}
	}
	if let Some(w) = writer.take() {
		std::mem::forget(w);
	}
	verif_h3::set_start_len(32 * 1024);
	out.push(')');
	Ok(out)
}
