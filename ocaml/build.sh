#!/bin/bash
# Extracts the model (must be run after the Coq build) and builds ocaml/avromodel
set -e
cd "$(dirname "$0")"
mkdir -p gen _build
(cd gen && rm -f *.ml *.mli && coqc -R ../../coq Avro ../../coq/extract/Extract.v 2>&1 | grep -v "unknown-option\|There is no flag\|Extraction Output Directory\|^$" || true)
rm -f ../coq/extract/Extract.vo ../coq/extract/Extract.vos ../coq/extract/Extract.vok ../coq/extract/Extract.glob ../coq/extract/.Extract.aux
cp gen/*.ml gen/*.mli _build/
cp driver.ml _build/
cd _build
rm -f ../avromodel
ORDER=$(ocamlfind ocamldep -sort $(ls *.ml | grep -v '^driver.ml$') *.mli | tr ' ' '\n' | grep '\.ml$' | tr '\n' ' ')
ocamlfind ocamlopt -w -a -O2 -package zarith -linkpkg $(for f in $ORDER; do echo ${f%.ml}.mli $f; done) driver.ml -o ../avromodel 2>&1 | grep -v "^$" | head -30
test -x ../avromodel
