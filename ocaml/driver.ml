(* avromodel: runs cases (one per stdin line) through the model extracted from Coq
   and prints one canonical result per line. Hand-written part: parsing and printing only. *)
module L = Stdlib.List
module String = Stdlib.String
module Buffer = Stdlib.Buffer
module Printf = Stdlib.Printf
open BinNums

(* ---------- S-expressions ---------- *)
type sx = A of string | Ls of sx list

let parse_many (s : string) : sx list =
  let n = String.length s in
  let i = ref 0 in
  let stack : sx list ref list ref = ref [] in
  let top : sx list ref = ref [] in
  let push v = match !stack with [] -> top := v :: !top | cur :: _ -> cur := v :: !cur in
  while !i < n do
    let c = s.[!i] in
    if c = ' ' || c = '\t' || c = '\n' || c = '\r' then incr i
    else if c = '(' then (stack := ref [] :: !stack; incr i)
    else if c = ')' then begin
      (match !stack with
       | [] -> failwith "unbalanced )"
       | cur :: rest -> stack := rest; push (Ls (L.rev !cur)));
      incr i end
    else begin
      let st = !i in
      while !i < n && (let c = s.[!i] in not (c = ' ' || c = '\t' || c = '\n' || c = '\r' || c = '(' || c = ')')) do incr i done;
      push (A (String.sub s st (!i - st)))
    end
  done;
  if !stack <> [] then failwith "unbalanced (";
  L.rev !top

let atom = function A a -> a | Ls _ -> failwith "expected atom"
let head = function
  | A a -> (a, [])
  | Ls (A h :: rest) -> (h, rest)
  | _ -> failwith "expected (head ...)"

(* ---------- numbers ---------- *)
let rec pos_of_z (x : Z.t) : positive =
  if Z.equal x Z.one then Coq_xH
  else if Z.is_even x then Coq_xO (pos_of_z (Z.shift_right x 1))
  else Coq_xI (pos_of_z (Z.shift_right x 1))
let n_of_z (x : Z.t) : coq_N = if Z.sign x = 0 then N0 else Npos (pos_of_z x)
let z_of_z (x : Z.t) : coq_Z =
  if Z.sign x = 0 then Z0 else if Z.sign x > 0 then Zpos (pos_of_z x) else Zneg (pos_of_z (Z.neg x))
let rec z_of_pos = function
  | Coq_xH -> Z.one
  | Coq_xO p -> Z.shift_left (z_of_pos p) 1
  | Coq_xI p -> Z.succ (Z.shift_left (z_of_pos p) 1)
let zn = function N0 -> Z.zero | Npos p -> z_of_pos p
let zz = function Z0 -> Z.zero | Zpos p -> z_of_pos p | Zneg p -> Z.neg (z_of_pos p)
let rec nat_of_int (i : int) : Datatypes.nat = if i <= 0 then Datatypes.O else Datatypes.S (nat_of_int (i - 1))
let rec int_of_nat = function Datatypes.O -> 0 | Datatypes.S n -> 1 + int_of_nat n
let n_of_int i = n_of_z (Z.of_int i)
let int_of_n x = Z.to_int (zn x)

let sx_n s = n_of_z (Z.of_string (atom s))
let sx_z s = z_of_z (Z.of_string (atom s))
(* node keys and indexes: anything beyond 100000 behaves like 100000 (out of every range used) *)
let sx_nat s = nat_of_int (Z.to_int (Z.min (Z.of_string (atom s)) (Z.of_int 100000)))

(* ---------- bytes ---------- *)
let sx_bytes s : coq_N list =
  let a = atom s in
  if String.length a < 1 || a.[0] <> 'x' then failwith ("expected hex atom: " ^ a);
  let h = String.sub a 1 (String.length a - 1) in
  L.init (String.length h / 2) (fun i -> n_of_int (int_of_string ("0x" ^ String.sub h (2 * i) 2)))
let hex (b : coq_N list) : string =
  let buf = Buffer.create (1 + 2 * L.length b) in
  Buffer.add_char buf 'x';
  L.iter (fun v -> Buffer.add_string buf (Printf.sprintf "%02x" (int_of_n v))) b;
  Buffer.contents buf

(* ---------- schema ---------- *)
open Schema
let sx_name s = name_of_fqn (sx_bytes s)
let sx_type s : regular =
  let (h, a) = head s in
  match h, a with
  | "null", _ -> RNull | "boolean", _ -> RBoolean | "int", _ -> RInt | "long", _ -> RLong
  | "float", _ -> RFloat | "double", _ -> RDouble | "bytes", _ -> RBytes | "string", _ -> RString
  | "array", [k] -> RArray (sx_nat k)
  | "map", [k] -> RMap (sx_nat k)
  | "union", ks -> RUnion (L.map sx_nat ks)
  | "record", nm :: fs ->
      RRecord (sx_name nm, L.map (function Ls [f; k] -> (sx_bytes f, sx_nat k) | _ -> failwith "bad field") fs)
  | "enum", nm :: syms -> REnum (sx_name nm, L.map sx_bytes syms)
  | "fixed", [nm; size] -> RFixed (sx_name nm, sx_n size)
  | _ -> failwith ("unknown type " ^ h)
let sx_logical s : logical option =
  let (h, a) = head s in
  match h, a with
  | "none", _ -> None
  | "decimal", [sc; pr] -> Some (LDecimal (sx_n sc, sx_n pr))
  | "uuid", _ -> Some LUuid | "date", _ -> Some LDate
  | "time-millis", _ -> Some LTimeMillis | "time-micros", _ -> Some LTimeMicros
  | "timestamp-millis", _ -> Some LTimestampMillis | "timestamp-micros", _ -> Some LTimestampMicros
  | "duration", _ -> Some LDuration | "big-decimal", _ -> Some LBigDecimal
  | "unknown", [n] -> Some (LUnknown (sx_bytes n))
  | _ -> failwith ("unknown logical " ^ h)
let sx_schema_mut s : mnode list =
  match head s with
  | ("schema", nodes) ->
      L.map (fun n -> match head n with
                      | ("node", [t; l]) -> { m_type = sx_type t; m_logical = sx_logical l }
                      | _ -> failwith "bad node") nodes
  | _ -> failwith "expected (schema ...)"

(* ---------- sval ---------- *)
open Sval
let sx_optlen s = if atom s = "none" then None else Some (sx_n s)
let rec sx_sval s : sval =
  let (h, a) = head s in
  let int signed w = SInt (signed, w, sx_z (L.hd a)) in
  (* (skipfield xF) = SerializeStruct::skip_field(F), what a derived impl calls for a field left out by skip_serializing_if:
     serde's provided method, a no-op returning Ok(()), which the crate's record serializer does not override -- the model's
     struct presentations have no such event, the driver drops it *)
  let fields fs = L.filter_map (function Ls [A "skipfield"; _] -> None
                                       | Ls [f; v] -> Some (sx_bytes f, sx_sval v) | _ -> failwith "bad field") fs in
  match h, a with
  | "bool", [b] -> SBool (atom b <> "0")
  | "i8", _ -> int true W8 | "i16", _ -> int true W16 | "i32", _ -> int true W32
  | "i64", _ -> int true W64 | "i128", _ -> int true W128
  | "u8", _ -> int false W8 | "u16", _ -> int false W16 | "u32", _ -> int false W32
  | "u64", _ -> int false W64 | "u128", _ -> int false W128
  | "f32", [b] -> SF32 (sx_n b)
  | "f64", [b] -> SF64 (sx_n b, N0)
  | "f64", [b; nr] -> SF64 (sx_n b, sx_n nr)
  | "char", [c] -> SChar (sx_n c)
  | "str", [b] -> SStr (sx_bytes b)
  | "bytes", [b] -> SBytes (sx_bytes b)
  | "none", _ -> SNone
  | "some", [v] -> SSome (sx_sval v)
  | "unit", _ -> SUnit
  | "unit_struct", [n] -> SUnitStruct (sx_bytes n)
  | "unit_variant", [e; i; v] -> SUnitVariant (sx_bytes e, sx_n i, sx_bytes v)
  | "newtype_struct", [n; v] -> SNewtypeStruct (sx_bytes n, sx_sval v)
  | "newtype_variant", [e; i; vn; v] -> SNewtypeVariant (sx_bytes e, sx_n i, sx_bytes vn, sx_sval v)
  | "seq", len :: vs -> SSeq (sx_optlen len, L.map sx_sval vs)
  | "tuple", vs -> STuple (L.map sx_sval vs)
  | "tuple_struct", n :: vs -> STupleStruct (sx_bytes n, L.map sx_sval vs)
  | "tuple_variant", e :: i :: vn :: vs -> STupleVariant (sx_bytes e, sx_n i, sx_bytes vn, L.map sx_sval vs)
  | "map", len :: calls ->
      SMap (sx_optlen len,
            L.map (fun c -> match head c with
                            | ("entry", [k; v]) -> (Some (sx_sval k), Some (sx_sval v))
                            | ("key", [k]) -> (Some (sx_sval k), None)
                            | ("value", [v]) -> (None, Some (sx_sval v))
                            | _ -> failwith "bad map call") calls)
  | "struct", n :: len :: fs -> SStruct (sx_bytes n, sx_n len, fields fs)
  | "struct_variant", e :: i :: vn :: len :: fs ->
      SStructVariant (sx_bytes e, sx_n i, sx_bytes vn, sx_n len, fields fs)
  | "fail", _ -> SFail
  | _ -> failwith ("unknown sval " ^ h)

(* ---------- results ---------- *)
open Base
let show_res (show : 'a -> string) (r : 'a result) : string =
  match r with
  | Ok a -> "(ok " ^ show a ^ ")"
  | Err EData -> "(err data)"
  | Err EIo -> "(err io)"
  | Panic _ -> "(panic)"
  | OutOfFuel -> "(outoffuel)"
  | Unmodelled -> "(unmodelled)"

let frozen (s : sx) : fschema result = freeze_nodes (nat_of_int (L.length (sx_schema_mut s))) (sx_schema_mut s)

(* trailing options of ser / sos: slow | (sink short K) | (sink fixed N) -> (slow, byte budget of the sink).
   A sink whose `write` takes at most K bytes per call is transparent to write_all (budget None, as a Vec);
   a fixed-size slice of N bytes accepts N bytes, then write_all fails (Ser.write with s_budget = Some N). *)
let ser_options (flags : sx list) : bool * coq_N option =
  L.fold_left (fun (slow, b) o ->
    match o with
    | A "slow" -> (true, b)
    | Ls [A "sink"; A "short"; _] -> (slow, b)
    | Ls [A "sink"; A "fixed"; n] -> (slow, Some (sx_n n))
    | _ -> failwith "ser: options") (false, None) flags

let cmd_ser (a : sx list) : string =
  match a with
  | sch :: v :: flags ->
      let (slow, budget) = ser_options flags in
      (match frozen sch with
       | Ok fs ->
           (match budget with
            | None -> show_res hex (Ser.to_datum fs slow (sx_sval v))
            | Some _ -> show_res hex (fst (SerHistory.hist_step fs slow ([], []) (sx_sval v, budget))))
       | _ -> "(bad-schema)")
  | _ -> failwith "ser: arguments"

let cmd_rabin (a : sx list) : string =
  match a with
  | [b] -> let bs = sx_bytes b in
      "(ok " ^ hex (Rabin.rabin_finish (Rabin.rabin bs)) ^ " " ^ hex (CrcSpec.le64 (CrcSpec.crc64_avro bs)) ^ ")"
  | _ -> failwith "rabin: arguments"

let fuel_big = nat_of_int 20000

(* ---------- dtarget / dval ---------- *)
open Target
let hint_of = function
  | "bool" -> Some HBool | "i8" -> Some HI8 | "i16" -> Some HI16 | "i32" -> Some HI32 | "i64" -> Some HI64
  | "i128" -> Some HI128 | "u8" -> Some HU8 | "u16" -> Some HU16 | "u32" -> Some HU32 | "u64" -> Some HU64
  | "u128" -> Some HU128 | "f32" -> Some HF32 | "f64" -> Some HF64 | "char" -> Some HChar | "str" -> Some HStr
  | "string" -> Some HString | "bytes" -> Some HBytes | "bytebuf" -> Some HByteBuf
  | "identifier" -> Some HIdentifier | "unit" -> Some HUnit | _ -> None
let rec sx_target s : dtarget =
  let (h, a) = head s in
  let fields fs = L.map (function Ls [f; t] -> (sx_bytes f, sx_target t) | _ -> failwith "bad field") fs in
  match hint_of h with
  | Some hh -> THint hh
  | None ->
  match h, a with
  | "any", _ -> TAny
  | "ignored", _ -> TIgnored
  | "unit_struct", [n] -> TUnitStruct (sx_bytes n)
  | "newtype_struct", [n; t] -> TNewtypeStruct (sx_bytes n, sx_target t)
  | "option", [t] -> TOption (sx_target t)
  | "seq", [t] -> TSeq (sx_target t)
  | "tuple", ts -> TTuple (L.map sx_target ts)
  | "tuple_struct", n :: ts -> TTupleStruct (sx_bytes n, L.map sx_target ts)
  | "map", [k; v] -> TMap (sx_target k, sx_target v)
  | "struct", n :: fs -> TStruct (sx_bytes n, fields fs)
  | "enum", n :: vs ->
      TEnum (sx_bytes n,
             L.map (fun v -> match head v with
                             | ("unit", [vn]) -> (sx_bytes vn, TVUnit)
                             | ("newtype", [vn; t]) -> (sx_bytes vn, TVNewtype (sx_target t))
                             | ("tuple", vn :: ts) -> (sx_bytes vn, TTuple (L.map sx_target ts))
                             | ("struct", vn :: fs) -> (sx_bytes vn, TStruct (sx_bytes vn, fields fs))
                             | _ -> failwith "bad variant") vs)
  | _ -> failwith ("unknown dtarget " ^ h)

let width_name signed w =
  (if signed then "i" else "u") ^ (match w with W8 -> "8" | W16 -> "16" | W32 -> "32" | W64 -> "64" | W128 -> "128")
let rec show_dval (d : dval) : string =
  match d with
  | DBool b -> if b then "(bool 1)" else "(bool 0)"
  | DInt (s, w, z) -> "(" ^ width_name s w ^ " " ^ Z.to_string (zz z) ^ ")"
  | DF32 b -> "(f32 " ^ Z.to_string (zn b) ^ ")"
  | DF64 b -> "(f64 " ^ Z.to_string (zn b) ^ ")"
  | DChar c -> "(char " ^ Z.to_string (zn c) ^ ")"
  | DUnit -> "unit"
  | DNone -> "none"
  | DSome d -> "(some " ^ show_dval d ^ ")"
  | DStr s -> "(str " ^ hex s ^ ")"
  | DBStr (o, l, s) -> "(bstr " ^ Z.to_string (zn o) ^ " " ^ Z.to_string (zn l) ^ " " ^ hex s ^ ")"
  | DBytes s -> "(bytes " ^ hex s ^ ")"
  | DBBytes (o, l, s) -> "(bbytes " ^ Z.to_string (zn o) ^ " " ^ Z.to_string (zn l) ^ " " ^ hex s ^ ")"
  | DSeq ds -> "(seq" ^ String.concat "" (L.map (fun d -> " " ^ show_dval d) ds) ^ ")"
  | DMap kvs -> "(map" ^ String.concat "" (L.map (fun (k, v) -> " (" ^ show_dval k ^ " " ^ show_dval v ^ ")") kvs) ^ ")"
  | DNewtype d -> "(newtype " ^ show_dval d ^ ")"
  | DEnum (v, d) -> "(enum " ^ hex v ^ " " ^ show_dval d ^ ")"
  | DStruct fs -> "(struct" ^ String.concat "" (L.map (fun (k, v) -> " (" ^ hex k ^ " " ^ show_dval v ^ ")") fs) ^ ")"
  | DMissing -> "missing"
  | DIgnored -> "ignored"

(* ---------- spec values ---------- *)
open Encoding
let rec sx_evalue s : evalue =
  let (h, a) = head s in
  match h, a with
  | "null", _ -> ENull
  | "bool", [b] -> EBool (atom b <> "0")
  | "int", [z] -> EInt (sx_z z)
  | "long", [z] -> ELong (sx_z z)
  | "float", [b] -> EFloat (sx_n b)
  | "double", [b] -> EDouble (sx_n b)
  | "bytes", [b] -> EBytes (sx_bytes b)
  | "string", [b] -> EString (sx_bytes b)
  | "array", blocks ->
      EArray (L.map (fun blk -> match blk with
                                | Ls (A "blk" :: neg :: items) -> (atom neg <> "0", L.map sx_evalue items)
                                | _ -> failwith "bad block") blocks)
  | "map", blocks ->
      EMap (L.map (fun blk -> match blk with
                              | Ls (A "blk" :: neg :: items) ->
                                  (atom neg <> "0",
                                   L.map (function Ls [k; v] -> (sx_bytes k, sx_evalue v) | _ -> failwith "bad entry") items)
                              | _ -> failwith "bad block") blocks)
  | "union", [i; v] -> EUnion (sx_nat i, sx_evalue v)
  | "record", fs -> ERecord (L.map sx_evalue fs)
  | "enum", [i] -> EEnum (sx_nat i)
  | "fixed", [b] -> EFixed (sx_bytes b)
  | "decimal", [m; pad] -> EDecimal (sx_z m, sx_nat pad)
  | "bigdecimal", [m; sc; pad] -> EBigDecimal (sx_z m, sx_n sc, sx_nat pad)
  | "duration", [x; y; z] -> EDuration (sx_n x, sx_n y, sx_n z)
  | _ -> failwith ("unknown evalue " ^ h)

let zs z = Z.to_string (zz z)
let ns n = Z.to_string (zn n)
let rec show_sval (v : sval) : string =
  let many vs = String.concat "" (L.map (fun v -> " " ^ show_sval v) vs) in
  let fields fs = String.concat "" (L.map (fun (k, v) -> " (" ^ hex k ^ " " ^ show_sval v ^ ")") fs) in
  let optlen = function None -> "none" | Some l -> ns l in
  match v with
  | SBool b -> if b then "(bool 1)" else "(bool 0)"
  | SInt (s, w, z) -> "(" ^ width_name s w ^ " " ^ zs z ^ ")"
  | SF32 b -> "(f32 " ^ ns b ^ ")"
  | SF64 (b, nr) -> "(f64 " ^ ns b ^ " " ^ ns nr ^ ")"
  | SChar c -> "(char " ^ ns c ^ ")"
  | SStr s -> "(str " ^ hex s ^ ")"
  | SBytes s -> "(bytes " ^ hex s ^ ")"
  | SNone -> "none"
  | SSome v -> "(some " ^ show_sval v ^ ")"
  | SUnit -> "unit"
  | SUnitStruct n -> "(unit_struct " ^ hex n ^ ")"
  | SUnitVariant (e, i, vn) -> "(unit_variant " ^ hex e ^ " " ^ ns i ^ " " ^ hex vn ^ ")"
  | SNewtypeStruct (n, v) -> "(newtype_struct " ^ hex n ^ " " ^ show_sval v ^ ")"
  | SNewtypeVariant (e, i, vn, v) -> "(newtype_variant " ^ hex e ^ " " ^ ns i ^ " " ^ hex vn ^ " " ^ show_sval v ^ ")"
  | SSeq (len, vs) -> "(seq " ^ optlen len ^ many vs ^ ")"
  | STuple vs -> "(tuple" ^ many vs ^ ")"
  | STupleStruct (n, vs) -> "(tuple_struct " ^ hex n ^ many vs ^ ")"
  | STupleVariant (e, i, vn, vs) -> "(tuple_variant " ^ hex e ^ " " ^ ns i ^ " " ^ hex vn ^ many vs ^ ")"
  | SMap (len, calls) ->
      "(map " ^ optlen len ^
      String.concat "" (L.map (fun c -> match c with
                                        | (Some k, Some v) -> " (entry " ^ show_sval k ^ " " ^ show_sval v ^ ")"
                                        | (Some k, None) -> " (key " ^ show_sval k ^ ")"
                                        | (None, Some v) -> " (value " ^ show_sval v ^ ")"
                                        | (None, None) -> "") calls) ^ ")"
  | SStruct (n, len, fs) -> "(struct " ^ hex n ^ " " ^ ns len ^ fields fs ^ ")"
  | SStructVariant (e, i, vn, len, fs) ->
      "(struct_variant " ^ hex e ^ " " ^ ns i ^ " " ^ hex vn ^ " " ^ ns len ^ fields fs ^ ")"
  | SFail -> "fail"

let hint_name = function
  | HBool -> "bool" | HI8 -> "i8" | HI16 -> "i16" | HI32 -> "i32" | HI64 -> "i64" | HI128 -> "i128"
  | HU8 -> "u8" | HU16 -> "u16" | HU32 -> "u32" | HU64 -> "u64" | HU128 -> "u128" | HF32 -> "f32"
  | HF64 -> "f64" | HChar -> "char" | HStr -> "str" | HString -> "string" | HBytes -> "bytes"
  | HByteBuf -> "bytebuf" | HIdentifier -> "identifier" | HUnit -> "unit"
let rec show_target (t : dtarget) : string =
  let many ts = String.concat "" (L.map (fun t -> " " ^ show_target t) ts) in
  let fields fs = String.concat "" (L.map (fun (k, t) -> " (" ^ hex k ^ " " ^ show_target t ^ ")") fs) in
  match t with
  | TAny -> "any" | TIgnored -> "ignored" | THint h -> hint_name h
  | TUnitStruct n -> "(unit_struct " ^ hex n ^ ")"
  | TNewtypeStruct (n, t) -> "(newtype_struct " ^ hex n ^ " " ^ show_target t ^ ")"
  | TOption t -> "(option " ^ show_target t ^ ")"
  | TSeq t -> "(seq " ^ show_target t ^ ")"
  | TTuple ts -> "(tuple" ^ many ts ^ ")"
  | TTupleStruct (n, ts) -> "(tuple_struct " ^ hex n ^ many ts ^ ")"
  | TMap (k, v) -> "(map " ^ show_target k ^ " " ^ show_target v ^ ")"
  | TStruct (n, fs) -> "(struct " ^ hex n ^ fields fs ^ ")"
  | TEnum (n, vs) ->
      "(enum " ^ hex n ^
      String.concat "" (L.map (fun (vn, p) -> match p with
                                              | TVUnit -> " (unit " ^ hex vn ^ ")"
                                              | TVNewtype t -> " (newtype " ^ hex vn ^ " " ^ show_target t ^ ")"
                                              | TTuple ts -> " (tuple " ^ hex vn ^ many ts ^ ")"
                                              | TStruct (_, fs) -> " (struct " ^ hex vn ^ fields fs ^ ")"
                                              | _ -> failwith "bad variant payload") vs) ^ ")"
  | TVUnit | TVNewtype _ -> failwith "payload target outside an enum"

(* spec SCHEMA EVALUE -> (ok xENCODING xCANONICAL conforms layout_ok DVAL_ANY SVAL_PRESENT) *)
let cmd_spec (a : sx list) : string =
  match a with
  | [sch; ev] ->
      (match frozen sch with
       | Ok fs ->
           (match Schema.fnode_at fs Datatypes.O with
            | None -> "(bad-schema)"
            | Some root ->
                let e = sx_evalue ev in
                let v = erase e in
                let b x = if x then "1" else "0" in
                "(ok " ^ hex (encode_e fs root e) ^ " " ^ hex (spec_encode fs root v) ^ " "
                ^ b (AvroValue.conforms fs root v) ^ " " ^ b (layout_ok e) ^ " "
                ^ show_dval (Denote.dval_any fs root v) ^ " " ^ show_sval (Denote.present fs root v) ^ " "
                ^ show_target (Denote.typed_target fs (Datatypes.S (Datatypes.S (Wf.depth_cost e))) root) ^ " "
                ^ show_dval (Denote.dval_typed fs root v) ^ " "
                ^ show_target (DenoteOpt.typed_target_opt fs (Datatypes.S (Datatypes.S (Wf.depth_cost e))) root) ^ " "
                ^ show_dval (DenoteOpt.dval_typed_opt fs root v) ^ ")")
       | _ -> "(bad-schema)")
  | _ -> failwith "spec: arguments"

let cmd_de (a : sx list) : string =
  match a with
  | sch :: tgt :: data :: mode :: rest ->
      let (cfg, max_alloc) =
        (match rest with
         | [c] -> (match head c with
                   | ("cfg", ms :: dp :: more) ->
                       ({ De.c_max_seq = sx_n ms; De.c_depth = sx_nat dp },
                        (match more with [ma] -> sx_n ma | _ -> n_of_z (Z.of_int (512 * 1024 * 1024))))
                   | _ -> failwith "bad cfg")
         | _ -> (De.cfg_default, n_of_z (Z.of_int (512 * 1024 * 1024)))) in
      let bytes = sx_bytes data in
      let rs = (match head mode with
                | ("slice", _) -> Reader.slice_reader bytes
                | ("chunks", plan) -> Reader.chunked_reader bytes (L.map sx_n plan) max_alloc
                | _ -> failwith "bad mode") in
      (match frozen sch with
       | Ok fs ->
           show_res (fun (d, rest) -> show_dval d ^ " " ^ Z.to_string (zn rest))
             (De.de_datum (nat_of_int 100000) fs cfg (sx_target tgt) rs)
       | _ -> "(bad-schema)")
  | _ -> failwith "de: arguments"

let cmd_fp (a : sx list) : string =
  match a with
  | [sch] ->
      let g = sx_schema_mut sch in
      (match CanonicalForm.canonical_form fuel_big g, CanonicalForm.fingerprint fuel_big g with
       | Ok t, Ok f -> "(ok " ^ hex f ^ " " ^ hex t ^ ")"
       | Err _, Err _ -> "(err data)"
       | OutOfFuel, _ | _, OutOfFuel -> "(outoffuel)"
       | _, _ -> "(inconsistent)")
  | _ -> failwith "fp: arguments"

(* ---------- container files ---------- *)
open VectoredWrite
open Container
let sx_sched s : bool * wans list =
  match head s with
  | ("vec", _) -> (true, [Accept (n_of_int 1000000)])
  | ("sched", v :: answers) ->
      (atom v <> "0",
       (match L.map (fun a -> match head a with
                        | ("a", [k]) -> Accept (n_of_z (Z.min (Z.of_string (atom k)) (Z.of_int 1000000)))
                        | ("i", _) -> Interrupted | ("z", _) -> Zero | ("h", _) -> Hard
                        | _ -> failwith "bad answer") answers with
        | [] -> [Accept (n_of_int 1000000)]
        | l -> l))
  | _ -> failwith "bad sink"
let show_wout = function
  | WROk -> "ok" | WRErr -> "err" | WRGone -> "gone" | WRPanic _ -> "panic" | WRUnmodelled -> "unmodelled"

(* cw xJSON SCHEMA null BLOCKSIZE xSYNC SINK (meta (xK xV)...) OP...
   cwraw xJSON SCHEMA CODEC ... : the same writer model for ANY codec with the block compressor taken to be the identity
   (Container.v is parametric in enc) and the codec's name in the header: the file as it is BEFORE block compression --
   header, then per block (count, length of the payload, payload = encodings of the block's values, sync). A file of
   the crate whose block data are replaced by their decompression must be this file. *)
let cmd_cw_gen (raw : bool) (a : sx list) : string =
  match a with
  | json :: sch :: codec :: bsz :: sync :: sink :: meta :: ops ->
      let family = fst (head codec) in
      if (not raw) && family <> "null" then "(unmodelled)" else
      if not (L.mem family ["null"; "deflate"; "bzip2"; "snappy"; "xz"; "zstandard"]) then "(unmodelled)" else
      let codec_name = L.map (fun c -> n_of_int (Char.code c)) (L.init (String.length family) (String.get family)) in
      (match frozen sch with
       | Ok fs ->
           let (vectored, sched) = sx_sched sink in
           let user = (match head meta with
                       | ("meta", kvs) -> L.map (function Ls [k; v] -> (sx_bytes k, sx_bytes v) | _ -> failwith "bad meta") kvs
                       | _ -> failwith "bad meta") in
           let syncb = sx_bytes sync in
           let wops = L.map (fun o -> match head o with
                                      | ("ser", [v]) -> WSerialize (sx_sval v)
                                      | ("push", [b; n]) -> WPush (sx_bytes b, sx_n n)
                                      | ("finish", _) -> WFinish
                                      | ("into_inner", _) -> WIntoInner
                                      | ("drop", _) -> WDrop
                                      | _ -> failwith "bad op") ops in
           let (r0, st0) = wbuild syncb (sx_bytes json) codec_name user sched in
           (match r0 with
            | WROk ->
                let (rs, stf) = wrun (fun x -> x) fs (sx_n bsz) syncb vectored st0 wops in
                "(ok (built " ^ string_of_int (L.length st0.w_sink) ^ ")"
                ^ String.concat "" (L.map (fun (r, l) -> " (" ^ show_wout r ^ " " ^ ns l ^ ")") rs)
                ^ " " ^ hex stf.w_sink ^ ")"
            | _ -> "(build-err " ^ string_of_int (L.length st0.w_sink) ^ " " ^ hex st0.w_sink ^ ")")
       | _ -> "(bad-schema)")
  | _ -> failwith "cw: arguments"
let cmd_cw = cmd_cw_gen false
let cmd_cwraw = cmd_cw_gen true

let show_item = function
  | IValue d -> "(ok " ^ show_dval d ^ ")"
  | IEof -> "eof"
  | IErr EData -> "(err data)" | IErr EIo -> "(err io)"
  | IPanic _ -> "(panic)" | IUnmodelled -> "(unmodelled)"

(* cr xFILE MODE TARGET MAXCALLS SCHEMA : the reader over a null-codec file whose schema is SCHEMA;
   prints the metadata entries as found and the items *)
let cmd_cr (a : sx list) : string =
  match a with
  | file :: mode :: tgt :: maxc :: sch :: rest ->
      let bytes = sx_bytes file in
      (* optional (alloc N): ReaderRead::max_alloc_size of the reader handed to the container reader *)
      let max_alloc = (match rest with
                       | o :: _ -> (match head o with ("alloc", [n]) -> sx_n n | _ -> failwith "cr: expected (alloc N)")
                       | [] -> n_of_z (Z.of_int (512 * 1024 * 1024))) in
      let rs = (match head mode with
                | ("slice", _) -> Reader.slice_reader bytes
                | ("chunks", plan) -> Reader.chunked_reader bytes (L.map sx_n plan) max_alloc
                | _ -> failwith "bad mode") in
      (match cr_open rs with
       | Ok ((entries, sy), r1) ->
           (match header_meta entries with
            | Ok ((json, codec), user) ->
                if hex codec <> "x6e756c6c" then "(unmodelled)" else
                (match frozen sch with
                 | Ok fs ->
                     let items = cr_run fs De.cfg_default sy (sx_target tgt) (nat_of_int (int_of_string (atom maxc)))
                                   { cr_state = RNotInBlock r1; cr_pretend_eof = false } in
                     (* stop after the second eof like the harness *)
                     let rec cut eofs = function
                       | [] -> []
                       | IEof :: rest -> if eofs >= 1 then [IEof] else IEof :: cut (eofs + 1) rest
                       | x :: rest -> x :: cut eofs rest in
                     let meta = L.sort compare (L.map (fun (k, v) -> (hex k, hex v)) user) in
                     "(ok " ^ hex json ^ " (meta" ^ String.concat "" (L.map (fun (k, v) -> " (" ^ k ^ " " ^ v ^ ")") meta) ^ ")"
                     ^ String.concat "" (L.map (fun i -> " " ^ show_item i) (cut 0 items)) ^ ")"
                 | _ -> "(bad-schema)")
            | _ -> "(open-err)")
       | Err _ -> "(open-err)"
       | Panic _ -> "(panic)"
       | _ -> "(unmodelled)")
  | _ -> failwith "cr: arguments"

(* fileparse xFILE -> (ok (meta (xK xV)...) xSYNC (blk COUNT xDATA)...) | (invalid) *)
let cmd_fileparse (a : sx list) : string =
  match a with
  | [f] ->
      (match FileSpec.ref_parse (sx_bytes f) with
       | None -> "(invalid)"
       | Some rf ->
           "(ok (meta" ^ String.concat "" (L.map (fun (k, v) -> " (" ^ hex k ^ " " ^ hex v ^ ")") rf.FileSpec.rf_meta) ^ ") "
           ^ hex rf.FileSpec.rf_sync
           ^ String.concat "" (L.map (fun b -> " (blk " ^ zs b.FileSpec.rb_count ^ " " ^ hex b.FileSpec.rb_data ^ ")") rf.FileSpec.rf_blocks)
           ^ ")")
  | _ -> failwith "fileparse: arguments"

(* ---------- schema documents ---------- *)
open Json
let rec sx_json s : json =
  match head s with
  | ("null", _) -> JNull
  | ("bool", [b]) -> JBool (atom b <> "0")
  | ("num", [t]) -> JNum (sx_bytes t)
  | ("str", [t]) -> JStr (sx_bytes t)
  | ("arr", l) -> JArr (L.map sx_json l)
  | ("obj", kvs) -> JObj (L.map (function Ls [k; v] -> (sx_bytes k, sx_json v) | _ -> failwith "bad member") kvs)
  | (h, _) -> failwith ("bad json " ^ h)

(* the same syntax, printed *)
let rec show_json (j : json) : string =
  match j with
  | JNull -> "null"
  | JBool b -> if b then "(bool 1)" else "(bool 0)"
  | JNum t -> "(num " ^ hex t ^ ")"
  | JStr t -> "(str " ^ hex t ^ ")"
  | JArr l -> "(arr" ^ String.concat "" (L.map (fun x -> " " ^ show_json x) l) ^ ")"
  | JObj kvs -> "(obj" ^ String.concat "" (L.map (fun (k, v) -> " (" ^ hex k ^ " " ^ show_json v ^ ")") kvs) ^ ")"

(* a document argument: the AST itself, or `(text xTEXT)` = the JSON text, read by the model's own reader
   (JsonRead.json_of_text: serde_json's grammar, escapes, UTF-8 check, recursion limit 128). A text the reader rejects is
   Err -- what the crate answers for unreadable JSON *)
let json_arg (s : sx) : json Base.result =
  match s with
  | Ls [A "text"; t] -> JsonRead.json_of_text (sx_bytes t)
  | _ -> Base.Ok (sx_json s)
(* the graph of a document argument: for a text, SchemaMut::from_str as stated in the theorems
   (JsonReadSchema.parse_schema_text = json_of_text, then Parse.parse_schema) *)
let schema_arg (s : sx) : mnode list Base.result =
  match s with
  | Ls [A "text"; t] -> JsonReadSchema.parse_schema_text (sx_bytes t)
  | _ -> Parse.parse_schema (sx_json s)

(* jsonread xTEXT -> (ok AST xCOMPACT) | (err) : the model's JSON reader alone; COMPACT = Json.json_text of the AST *)
let cmd_jsonread (a : sx list) : string =
  match a with
  | [t] ->
      (match JsonRead.json_of_text (sx_bytes t) with
       | Base.Ok j -> "(ok " ^ show_json j ^ " " ^ hex (json_text j) ^ ")"
       | Base.Err _ -> "(err)"
       | Base.OutOfFuel -> "(outoffuel)"
       | _ -> "(unmodelled)")
  | _ -> failwith "jsonread: arguments"

let show_name (n : name) = hex n.nm_full
let show_node (n : mnode) : string =
  let ty = (match n.m_type with
    | RNull -> "null" | RBoolean -> "boolean" | RInt -> "int" | RLong -> "long" | RFloat -> "float"
    | RDouble -> "double" | RBytes -> "bytes" | RString -> "string"
    | RArray k -> "(array " ^ string_of_int (int_of_nat k) ^ ")"
    | RMap k -> "(map " ^ string_of_int (int_of_nat k) ^ ")"
    | RUnion ks -> "(union" ^ String.concat "" (L.map (fun k -> " " ^ string_of_int (int_of_nat k)) ks) ^ ")"
    | RRecord (nm, fs) -> "(record " ^ show_name nm ^ String.concat "" (L.map (fun (f, k) -> " (" ^ hex f ^ " " ^ string_of_int (int_of_nat k) ^ ")") fs) ^ ")"
    | REnum (nm, syms) -> "(enum " ^ show_name nm ^ String.concat "" (L.map (fun s -> " " ^ hex s) syms) ^ ")"
    | RFixed (nm, size) -> "(fixed " ^ show_name nm ^ " " ^ ns size ^ ")") in
  let lt = (match n.m_logical with
    | None -> "none"
    | Some (LDecimal (sc, pr)) -> "(decimal " ^ ns sc ^ " " ^ ns pr ^ ")"
    | Some LUuid -> "uuid" | Some LDate -> "date" | Some LTimeMillis -> "time-millis"
    | Some LTimeMicros -> "time-micros" | Some LTimestampMillis -> "timestamp-millis"
    | Some LTimestampMicros -> "timestamp-micros" | Some LDuration -> "duration"
    | Some LBigDecimal -> "big-decimal" | Some (LUnknown s) -> "(unknown " ^ hex s ^ ")") in
  "(node " ^ ty ^ " " ^ lt ^ ")"
let show_schema (g : mnode list) = "(schema" ^ String.concat "" (L.map (fun n -> " " ^ show_node n) g) ^ ")"

(* parse JSONAST | parse (text xTEXT) -> (ok NODES xPCF xFP xJSONTEXT xSPECPCF)
   JSONTEXT: the compact print of the document as read (number tokens as written) *)
let cmd_parse (a : sx list) : string =
  match a with
  | [j] ->
      (match schema_arg j with
       | Ok g ->
           (match json_arg j with
            | Ok doc ->
                (match CanonicalForm.canonical_form fuel_big g, CanonicalForm.fingerprint fuel_big g with
                 | Ok t, Ok f ->
                     "(ok " ^ show_schema g ^ " " ^ hex t ^ " " ^ hex f ^ " " ^ hex (json_text doc) ^ " "
                     ^ hex (PcfSpec.pcf (nat_of_int 2000) None doc) ^ ")"
                 | _ -> "(cf-err)")
            | _ -> "(inconsistent)")
       | Err _ -> "(err data)"
       | OutOfFuel -> "(outoffuel)"
       | _ -> "(unmodelled)")
  | _ -> failwith "parse: arguments"

(* freeze SCHEMA -> (ok xFP xJSON) : fingerprint and regenerated JSON of a built graph *)
let cmd_freeze (a : sx list) : string =
  match a with
  | [sch] ->
      let g = sx_schema_mut sch in
      (match Freeze.freeze_built fuel_big g with
       | Ok ((_, f), t) -> "(ok " ^ hex f ^ " " ^ hex t ^ ")"
       | Err _ -> "(err data)"
       | _ -> "(outoffuel)")
  | _ -> failwith "freeze: arguments"

(* tojson SCHEMA -> (ok xJSON) : the JSON regenerated from a built graph by the writer alone (SchemaJson.schema_json, serialize.rs) *)
let cmd_tojson (a : sx list) : string =
  match a with
  | [sch] ->
      let g = sx_schema_mut sch in
      (match SchemaJson.schema_json fuel_big g with
       | Ok t -> "(ok " ^ hex t ^ ")"
       | Err _ -> "(err data)"
       | _ -> "(outoffuel)")
  | _ -> failwith "tojson: arguments"

(* hist SCHEMA SLOW (job SVAL BUDGET|none)... : results of consecutive to_datum calls on one configuration *)
let cmd_hist (a : sx list) : string =
  match a with
  | sch :: slow :: jobs ->
      (match frozen sch with
       | Ok fs ->
           let js = L.map (fun j -> match head j with
                                    | ("job", [v; b]) -> (sx_sval v, (if atom b = "none" then None else Some (sx_n b)))
                                    | _ -> failwith "bad job") jobs in
           let (rs, _) = SerHistory.hist_run fs (atom slow <> "0") ([], []) js in
           "(ok" ^ String.concat "" (L.map (fun r -> " " ^ show_res hex r) rs) ^ ")"
       | _ -> "(bad-schema)")
  | _ -> failwith "hist: arguments"

(* single-object encoding *)
let schema_fp (sch : sx) : bytes option =
  match CanonicalForm.fingerprint fuel_big (sx_schema_mut sch) with Ok f -> Some f | _ -> None
let cmd_sos (a : sx list) : string =
  match a with
  | sch :: v :: flags ->
      let (slow, budget) = ser_options flags in
      (match frozen sch, schema_fp sch with
       | Ok fs, Some fp ->
           show_res (fun b -> hex b ^ " " ^ hex fp)
             (match budget, flags with
              | None, [] -> SingleObject.so_encode fs fp false (sx_sval v)
              | _ -> SingleObject.so_encode_sink fs fp slow budget (sx_sval v))
       | _ -> "(bad-schema)")
  | _ -> failwith "sos: arguments"
let cmd_sod (a : sx list) : string =
  match a with
  | [sch; tgt; data; mode] ->
      let bytes = sx_bytes data in
      let rs = (match head mode with
                | ("slice", _) -> Reader.slice_reader bytes
                | ("chunks", plan) -> Reader.chunked_reader bytes (L.map sx_n plan) (n_of_z (Z.of_int (512 * 1024 * 1024)))
                | _ -> failwith "bad mode") in
      (match frozen sch, schema_fp sch with
       | Ok fs, Some fp ->
           show_res (fun (d, _) -> show_dval d) (SingleObject.so_decode (nat_of_int 100000) fs De.cfg_default fp (sx_target tgt) rs)
       | _ -> "(bad-schema)")
  | _ -> failwith "sod: arguments"

(* own OP... : the handle machine and the freeze trace of coq/model/Ownership.v (property C10)
   OP ::= (build D SCHEMA) | (freeze S D) | (parse D LEN) | (move S D) | (arc S D) | (clone S D) | (drop S)
        | (open D LEN ok|before|after) | (read S OK BREAKS) | (borrow S D) | (use S)
   prints one token per op: ok | err | rejected | FAULT, followed by `!live` if live_okb fails in the
   intermediate or final state, and for freeze `!trace` if the event trace violates the checked memory
   and `!freeze-model` if the outcome differs from Freeze.freeze_built (the full model of freeze) *)
let cmd_own (a : sx list) : string =
  let open Ownership in
  let nat s = nat_of_int (int_of_string (atom s)) in
  let graphs : (int, mnode list) Hashtbl.t = Hashtbl.create 8 in
  let st = ref st0 in
  let out = Buffer.create 256 in
  L.iter (fun o ->
    let extra = ref "" in
    let op = (match head o with
      | ("build", [d; sch]) ->
          let g = sx_schema_mut sch in
          Hashtbl.replace graphs (int_of_string (atom d)) g;
          OpBuild (nat d, L.map shape g)
      | ("freeze", [s; d]) ->
          let g = (try Hashtbl.find graphs (int_of_string (atom s)) with Not_found -> []) in
          let pre_ok = (match CanonicalForm.fingerprint fuel_big g, SchemaJson.schema_json fuel_big g with
                        | Ok _, Ok _ -> true | _ -> false) in
          let (okf, tr) = freeze_run pre_ok (L.map shape g) in
          (match exec_trace fm0 tr with None -> extra := !extra ^ "!trace" | Some _ -> ());
          (if g <> [] then
            (match Freeze.freeze_built fuel_big g with
             | Ok _ -> if not okf then extra := !extra ^ "!freeze-model"
             | Err _ -> if okf then extra := !extra ^ "!freeze-model"
             | _ -> extra := !extra ^ "!freeze-model-fuel"));
          OpFreeze (nat s, nat d, pre_ok)
      | ("parse", [d; len]) -> OpParse (nat d, nat len)
      | ("move", [s; d]) ->
          (match Hashtbl.find_opt graphs (int_of_string (atom s)) with
           | Some g -> Hashtbl.replace graphs (int_of_string (atom d)) g | None -> ());
          OpMove (nat s, nat d)
      | ("arc", [s; d]) -> OpIntoArc (nat s, nat d)
      | ("clone", [s; d]) -> OpClone (nat s, nat d)
      | ("drop", [s]) -> OpDrop (nat s)
      | ("open", [d; len; f]) ->
          OpOpen (nat d, nat len, (match atom f with "ok" -> OpenOk | "before" -> OpenFailBeforeSchema
                                                    | "after" -> OpenFailAfterSchema | _ -> failwith "open mode"))
      | ("read", [s; ok; br]) -> OpRead (nat s, atom ok = "1", atom br = "1")
      | ("borrow", [s; d]) -> OpBorrow (nat s, nat d)
      | ("use", [s]) -> OpUse (nat s)
      | (h, _) -> failwith ("own: unknown op " ^ h)) in
    let ((oc, mid), fin) = step !st op in
    if not (live_okb mid && live_okb fin) then extra := !extra ^ "!live";
    st := fin;
    Buffer.add_string out (" " ^ (match oc with Done true -> "ok" | Done false -> "err" | Rejected -> "rejected" | Fault -> "FAULT") ^ !extra)) a;
  "(own" ^ Buffer.contents out ^ ")"

(* ---------- derived schemas (C20) ---------- *)
open Derive
let sx_rprim = function
  | "unit" -> Some PUnit | "bool" -> Some PBool | "i8" -> Some PI8 | "i16" -> Some PI16 | "i32" -> Some PI32
  | "i64" -> Some PI64 | "u16" -> Some PU16 | "u32" -> Some PU32 | "u64" -> Some PU64 | "usize" -> Some PUsize
  | "f32" -> Some PF32 | "f64" -> Some PF64 | _ -> None
let rec sx_rtype s : rtype =
  let (h, a) = head s in
  match sx_rprim h with
  | Some p -> TPrim p
  | None ->
  match h, a with
  | "string", _ -> TString | "bytes", _ -> TBytes
  | "bytearr", [n] -> TByteArr (sx_n n)
  | "option", [t] -> TOption (sx_rtype t) | "vec", [t] -> TVec (sx_rtype t)
  | "map", [t] -> TMap (sx_rtype t) | "ptr", [t] -> TPtr (sx_rtype t)
  | "param", [i] -> TParam (sx_nat i)
  | "named", id :: args -> TNamed (sx_nat id, L.map sx_rtype args)
  | _ -> failwith ("unknown rtype " ^ h)
let sx_aprim = function
  | "null" -> Some ANull | "boolean" -> Some ABoolean | "int" -> Some AInt | "long" -> Some ALong
  | "float" -> Some AFloat | "double" -> Some ADouble | "string" -> Some AString | "bytes" -> Some ABytes | _ -> None
let rec sx_lk s : lk =
  let (h, a) = head s in
  match sx_aprim h with
  | Some p -> LkPrim p
  | None ->
  match h, a with
  | "arr", [n] -> LkArr (sx_n n)
  | "option", [t] -> LkOption (sx_lk t) | "vec", [t] -> LkVec (sx_lk t) | "map", [t] -> LkMap (sx_lk t)
  | "named", id :: args -> LkNamed (sx_nat id, L.map sx_lk args)
  | _ -> failwith ("unknown lookup type " ^ h)
let sx_slot t l : slot =
  { sl_type = sx_rtype t;
    sl_logical = (match head l with ("none", _) -> None | ("logical", [x]) -> sx_logical x | _ -> failwith "bad slot attribute") }
let sx_header = function
  | mp :: ns :: nm :: ident :: np :: rest ->
      ({ h_modpath = sx_bytes mp;
         h_ns = (match head ns with ("none", _) -> None | ("ns", [x]) -> Some (sx_bytes x) | _ -> failwith "bad namespace");
         h_name = sx_bytes nm; h_ident = sx_bytes ident; h_nparams = sx_nat np }, rest)
  | _ -> failwith "bad header"
let keep s = match atom s with "keep" -> false | "skip" -> true | _ -> failwith "keep|skip"
let sx_def s : def =
  let (k, a) = head s in
  let (h, rest) = sx_header a in
  match k with
  | "struct" ->
      DStruct (h, L.map (fun f -> match head f with
                                  | ("field", [n; t; l; sk]) -> { f_name = sx_bytes n; f_slot = sx_slot t l; f_skip = keep sk }
                                  | _ -> failwith "bad field") rest)
  | "newtype" -> (match rest with [t; l] -> DNewtype (h, sx_slot t l) | _ -> failwith "bad newtype")
  | "unit_enum" ->
      DUnitEnum (h, L.map (fun f -> match head f with ("sym", [n; sk]) -> (sx_bytes n, keep sk) | _ -> failwith "bad symbol") rest)
  | "union_enum" ->
      DUnionEnum (h, L.map (fun f -> match head f with
                                     | ("unit", _) -> VUnit
                                     | ("variant", [n; t; l]) -> VNewtype (sx_bytes n, sx_slot t l)
                                     | _ -> failwith "bad variant") rest)
  | _ -> failwith ("unknown definition " ^ k)

(* derive DEFS ORACLE TYPE [unregistered] -> (ok (schema ...) NODUP) : the node vector of T::schema_mut() *)
let cmd_derive (a : sx list) : string =
  match a with
  | ds :: orc :: t :: flags ->
      let ds = (match head ds with ("defs", l) -> L.map sx_def l | _ -> failwith "expected (defs ...)") in
      let orc = (match head orc with
                 | ("oracle", l) -> L.map (function Ls [k; v] -> (sx_lk k, sx_bytes v) | _ -> failwith "bad oracle entry") l
                 | _ -> failwith "expected (oracle ...)") in
      let f = (match flags with [A "unregistered"] -> derive_schema_unregistered | _ -> derive_schema) in
      (match f (nat_of_int 400) ds orc (sx_rtype t) with
       | Ok g -> "(ok " ^ show_schema g ^ " " ^ (if no_dup_bytes (fullnames g) then "nodup" else "dup") ^ ")"
       | Err _ -> "(err data)"
       | Panic _ -> "(panic)"
       | OutOfFuel -> "(outoffuel)"
       | Unmodelled -> "(unmodelled)")
  | _ -> failwith "derive: arguments"

(* codecloop CODEC START (blk xINPUT xBLOCK (INLEN FREE STATUS CONSUMED PRODUCED_TOTAL)...)...
   replays the library answers recorded by hook H3 through the model of the encode loops
   (CodecLoop.replay_block): the blocks of ONE codec state in order, output_vec carried from block to block.
   -> (ok (blk RES UNUSED VECLEN (calls (INLEN FREE)...) xDATA|none)...)
   RES ::= (done LEN) | errlib | (errstatus N) | panic-assert | panic-index | panic-overflow | fuel *)
let nat_of_int_tr (i : int) : Datatypes.nat =
  let r = ref Datatypes.O in
  for _ = 1 to i do r := Datatypes.S !r done; !r
let int_of_nat_tr (n : Datatypes.nat) : int =
  let r = ref 0 and c = ref n in
  (try while true do (match !c with Datatypes.O -> raise Exit | Datatypes.S m -> incr r; c := m) done with Exit -> ());
  !r
let status_of_int = function
  | 0 -> CodecLoop.StOk | 1 -> CodecLoop.StBufError | 2 -> CodecLoop.StStreamEnd | 3 -> CodecLoop.StFlushOk
  | 4 -> CodecLoop.StRunOk | 5 -> CodecLoop.StFinishOk | 6 -> CodecLoop.StMemNeeded | 7 -> CodecLoop.StGetCheck
  | _ -> failwith "bad status"
let int_of_status = function
  | CodecLoop.StOk -> 0 | CodecLoop.StBufError -> 1 | CodecLoop.StStreamEnd -> 2 | CodecLoop.StFlushOk -> 3
  | CodecLoop.StRunOk -> 4 | CodecLoop.StFinishOk -> 5 | CodecLoop.StMemNeeded -> 6 | CodecLoop.StGetCheck -> 7
let cmd_codecloop (a : sx list) : string =
  match a with
  | codec :: start :: blocks ->
      let k = (match atom codec with
               | "deflate" -> CodecLoop.LDeflate | "bzip2" -> CodecLoop.LBzip2 | "xz" -> CodecLoop.LXz
               | c -> failwith ("codecloop: no loop for codec " ^ c)) in
      let start = nat_of_int_tr (int_of_string (atom start)) in
      let vec = ref [] in
      let out = Buffer.create 1024 in
      L.iter (fun b ->
        match head b with
        | ("blk", input :: stream :: trace) ->
            let tr = L.map (fun t -> match t with
                | Ls [_; _; st; cons; ptot] ->
                    { CodecLoop.rc_status = status_of_int (int_of_string (atom st));
                      rc_consumed = nat_of_int_tr (int_of_string (atom cons));
                      rc_ptotal = nat_of_int_tr (int_of_string (atom ptot)) }
                | _ -> failwith "codecloop: bad trace entry") trace in
            let ((((e, unused), v), log), data) =
              CodecLoop.replay_block k start !vec (sx_bytes input) (sx_bytes stream) tr in
            vec := v;
            let res = (match e with
              | CodecLoop.LDone n -> Printf.sprintf "(done %d)" (int_of_nat_tr n)
              | CodecLoop.LErrLib -> "errlib"
              | CodecLoop.LErrStatus st -> Printf.sprintf "(errstatus %d)" (int_of_status st)
              | CodecLoop.LPanicAssert -> "panic-assert"
              | CodecLoop.LPanicIndex -> "panic-index"
              | CodecLoop.LPanicOverflow -> "panic-overflow"
              | CodecLoop.LOutOfFuel -> "fuel") in
            Buffer.add_string out (Printf.sprintf " (blk %s %d %d (calls%s) %s)" res (int_of_nat_tr unused) (L.length v)
              (String.concat "" (L.map (fun c -> Printf.sprintf " (%d %d)" (int_of_nat_tr c.CodecLoop.lc_in) (int_of_nat_tr c.CodecLoop.lc_free)) log))
              (match data with Some d -> hex d | None -> "none"))
        | _ -> failwith "codecloop: expected (blk ...)") blocks;
      "(ok" ^ Buffer.contents out ^ ")"
  | _ -> failwith "codecloop: arguments"

(* snappy xINPUT xRAW CRC xBLOCK : the framing of CodecLoop.snappy_encode / snappy_decode with the raw codec
   given by the pair (INPUT, RAW) and crc32 INPUT = CRC
   -> (ok xENCODED DECODED) ; DECODED ::= (ok xBYTES) | err *)
let cmd_snappy (a : sx list) : string =
  match a with
  | [input; raw; crc; block] ->
      let x = sx_bytes input and r = sx_bytes raw and c = sx_n crc in
      let enc = CodecLoop.snappy_encode (fun _ -> r) (fun _ -> c) x in
      let dec = CodecLoop.snappy_decode (fun b -> if b = r then Some x else None) (fun _ -> c) (sx_bytes block) in
      "(ok " ^ hex enc ^ " " ^ (match dec with Base.Ok d -> "(ok " ^ hex d ^ ")" | _ -> "err") ^ ")"
  | _ -> failwith "snappy: arguments"

(* decend CAP BUFFERED LIMIT (ANSWER...) : the end-of-block check of reader/decompression.rs (DecodeLoop.block_end)
   on the state hook H4 recorded -- BufReader capacity, bytes buffered, Take limit left before the check -- with
   the recorded answers of the decoder reads the check made: ANSWER ::= err | (PRODUCED CONSUMED)
   -> (ok DECISION (wants W...) UNUSED LIMIT_AFTER BEFORE_FIX)
   DECISION, BEFORE_FIX ::= ok | decoder-err | leftover | take-left ; BEFORE_FIX = the check of commit 8463ea9^ *)
let show_endres = function
  | DecodeLoop.EndOk -> "ok" | DecodeLoop.EndDecoderErr -> "decoder-err"
  | DecodeLoop.EndLeftover -> "leftover" | DecodeLoop.EndTakeLeft -> "take-left"
let cmd_decend (a : sx list) : string =
  match a with
  | [cap; buffered; limit; Ls answers] ->
      let nat s = nat_of_int_tr (int_of_string (atom s)) in
      let ans = L.map (fun x -> match x with
          | A "err" -> None
          | Ls [p; c] -> Some (nat p, nat c)
          | _ -> failwith "decend: bad answer") answers in
      let (((e, wants), unused), lim) = DecodeLoop.replay_end (nat cap) (nat buffered) (nat limit) ans in
      let old = DecodeLoop.replay_end_before_fix (nat cap) (nat buffered) (nat limit) in
      Printf.sprintf "(ok %s (wants%s) %d %d %s)" (show_endres e)
        (String.concat "" (L.map (fun w -> " " ^ string_of_int (int_of_nat_tr w)) wants))
        (int_of_nat_tr unused) (int_of_nat_tr lim) (show_endres old)
  | _ -> failwith "decend: arguments"

(* ccr CAP xFILE MODE POLICY SCHEMASRC ITEM... : ContainerCodec.ccr_file -- the reader of a WHOLE file with compressed blocks --
   with the streaming decoder replayed from the reads hook H4 recorded when the crate read the same file
   (ContainerReplay.rp_dread), the value decoder ContainerCodec.cc_vdec for the schema of the header, the codec named in
   the header (deflate / bzip2 / xz / zstandard: BStream CAP, CAP = 0: 8192; snappy: BSnappy).
   MODE ::= slice | (chunks N...)          POLICY ::= fill | direct    (read policy of DecodeLoop.br_demand)
   SCHEMASRC ::= (json JSONAST) -- parsed by Parse.parse_schema -- | (schema NODE...)
   ITEM ::= (blk OFFSET SIZE CHKEY ANSWER...)   one block the crate entered: its SIZE bytes start at OFFSET of the file
                                                (the key of the replay = those bytes + CHKEY ::= none | (LEFT LATER))
                                                ANSWER ::= err | (xBYTES CONSUMED)
          | (snappy (xRAW none | xDATA CRC)...)  snap::raw on RAW gave DATA (or failed), crc32 DATA = CRC
   -> (ok xJSON xCODEC (meta (xK xV)...) xSYNC (values DVAL...) END) | (open-err STAGE) | (unmodelled xCODEC) | (panic) ...
   END ::= eof | neg | open | fuel | (head ITEM) | (block value|decoder-err|leftover|take-left|sync-short|sync-mismatch) *)
let rec l_drop n l = if n <= 0 then l else (match l with [] -> [] | _ :: t -> l_drop (n - 1) t)
let l_take n l =
  let rec go n l acc = if n <= 0 then L.rev acc else (match l with [] -> L.rev acc | x :: t -> go (n - 1) t (x :: acc)) in
  go n l []
let show_cend (e : ContainerCodec.cend) : string =
  match e with
  | ContainerCodec.CEof -> "eof" | ContainerCodec.CNeg -> "neg" | ContainerCodec.COpen -> "open" | ContainerCodec.CFuel -> "fuel"
  | ContainerCodec.CHead it -> "(head " ^ show_item it ^ ")"
  | ContainerCodec.CBlock b ->
      "(block " ^ (match b with
                   | DecodeLoop.BDone _ -> "done"
                   | DecodeLoop.BValueErr -> "value"
                   | DecodeLoop.BEndErr e -> show_endres e
                   | DecodeLoop.BSyncShort -> "sync-short"
                   | DecodeLoop.BSyncMismatch -> "sync-mismatch") ^ ")"
let cmd_ccr (a : sx list) : string =
  match a with
  | cap :: file :: mode :: policy :: schsrc :: items ->
      let bytes = sx_bytes file in
      let rs = (match head mode with
                | ("slice", _) -> Reader.slice_reader bytes
                | ("chunks", plan) -> Reader.chunked_reader bytes (L.map sx_n plan) (n_of_z (Z.of_int (512 * 1024 * 1024)))
                | _ -> failwith "bad mode") in
      let pol = (match atom policy with
                 | "fill" -> ContainerReplay.rp_policy_fill
                 | "direct" -> ContainerReplay.rp_policy_direct
                 | _ -> failwith "ccr: policy") in
      let total = ref 8 in
      let table = L.concat (L.map (fun it -> match head it with
          | ("blk", off :: size :: chkey :: answers) ->
              let avail = l_take (int_of_string (atom size)) (l_drop (int_of_string (atom off)) bytes) in
              let key = (match chkey with
                         | A "none" -> None
                         | Ls [l; n] -> Some (sx_n l, nat_of_int_tr (int_of_string (atom n)))
                         | _ -> failwith "ccr: bad chunk key") in
              let ans = L.map (fun x -> match x with
                  | A "err" -> incr total; None
                  | Ls [b; c] ->
                      let o = sx_bytes b in
                      total := !total + 1 + L.length o;
                      Some (o, nat_of_int_tr (int_of_string (atom c)))
                  | _ -> failwith "ccr: bad answer") answers in
              [{ ContainerReplay.rpb_avail = avail; rpb_ch = key; rpb_answers = ans }]
          | ("snappy", _) -> []
          | _ -> failwith "ccr: bad item") items) in
      let snaps = L.concat (L.map (fun it -> match head it with
          | ("snappy", l) -> L.map (function
               | Ls [r; A "none"] -> (sx_bytes r, None)
               | Ls [r; d; c] -> (sx_bytes r, Some (sx_bytes d, sx_n c))
               | _ -> failwith "ccr: bad snappy entry") l
          | _ -> []) items) in
      let raw_tbl = L.map (fun (r, v) -> (r, (match v with None -> None | Some (d, _) -> Some d))) snaps in
      let crc_tbl = L.concat (L.map (fun (_, v) -> match v with None -> [] | Some (d, c) -> [(d, c)]) snaps) in
      (match cr_open rs with
       | Ok ((entries, _), _) ->
           (match header_meta entries with
            | Ok ((json, codec), user) ->
                let fs = (match head schsrc with
                          | ("text", [_]) | ("json", [_]) ->
                              (match (match schsrc with Ls [A "json"; j] -> schema_arg j | _ -> schema_arg schsrc) with
                               | Ok g -> (match freeze_nodes (nat_of_int (L.length g)) g with Ok fs -> Some fs | _ -> None)
                               | _ -> None)
                          | ("schema", _) -> (match frozen schsrc with Ok fs -> Some fs | _ -> None)
                          | _ -> failwith "ccr: schema source") in
                (match fs with
                 | None -> "(open-err schema)"
                 | Some fs ->
                     (match Schema.fnode_at fs Datatypes.O with
                      | None -> "(open-err schema)"
                      | Some root ->
                          let capn = (match int_of_string (atom cap) with 0 -> 8192 | c -> c) in
                          let kind = (match hex codec with
                                      | "x736e61707079" -> Some ContainerCodec.BSnappy
                                      | "x6e756c6c" -> None
                                      | _ -> Some (ContainerCodec.BStream (nat_of_int_tr capn))) in
                          (match kind with
                           | None -> "(unmodelled " ^ hex codec ^ ")"
                           | Some kind ->
                               (match ContainerCodec.ccr_file ContainerReplay.rp_dread (ContainerReplay.rp_d0 table) pol
                                        (ContainerReplay.rp_raw_dec raw_tbl) (ContainerReplay.rp_crc32 crc_tbl)
                                        (ContainerCodec.cc_vdec fs De.cfg_default root) kind (nat_of_int_tr !total) rs with
                                | Ok (((entries2, sy), vs), e) ->
                                    if entries2 <> entries then "(inconsistent-header)" else
                                    let meta = L.sort compare (L.map (fun (k, v) -> (hex k, hex v)) user) in
                                    "(ok " ^ hex json ^ " " ^ hex codec
                                    ^ " (meta" ^ String.concat "" (L.map (fun (k, v) -> " (" ^ k ^ " " ^ v ^ ")") meta) ^ ") "
                                    ^ hex sy ^ " (values" ^ String.concat "" (L.map (fun d -> " " ^ show_dval d) vs) ^ ") "
                                    ^ show_cend e ^ ")"
                                | Err _ -> "(open-err header)"
                                | Panic _ -> "(panic)"
                                | OutOfFuel -> "(outoffuel)"
                                | Unmodelled -> "(unmodelled)"))))
            | _ -> "(open-err meta)")
       | Err _ -> "(open-err header)"
       | Panic _ -> "(panic)"
       | _ -> "(unmodelled)")
  | _ -> failwith "ccr: arguments"

let run_case (line : string) : string =
  try
    match parse_many line with
    | [] -> "(empty)"
    | A cmd :: args ->
        (match cmd with
         | "ser" -> cmd_ser args
         | "rabin" -> cmd_rabin args
         | "fp" -> cmd_fp args
         | "de" -> cmd_de args
         | "spec" -> cmd_spec args
         | "cw" -> cmd_cw args
         | "cwraw" -> cmd_cwraw args
         | "cr" -> cmd_cr args
         | "fileparse" -> cmd_fileparse args
         | "parse" -> cmd_parse args
         | "jsonread" -> cmd_jsonread args
         | "hist" -> cmd_hist args
         | "sos" -> cmd_sos args
         | "sod" -> cmd_sod args
         | "freeze" -> cmd_freeze args
         | "tojson" -> cmd_tojson args
         | "derive" -> cmd_derive args
         | "codecloop" -> cmd_codecloop args
         | "snappy" -> cmd_snappy args
         | "decend" -> cmd_decend args
         | "ccr" -> cmd_ccr args
         | "own" -> cmd_own args
         | _ -> failwith ("unknown command " ^ cmd))
    | _ -> "(bad-case)"
  with
  | Failure m -> "(bad-case " ^ String.escaped m ^ ")"
  | Stack_overflow -> "(stack-overflow)"
  | Not_found -> "(bad-case not-found)"
  | Invalid_argument m -> "(bad-case " ^ String.escaped m ^ ")"

let () =
  try
    while true do
      let line = input_line stdin in
      print_string (run_case line); print_newline ()
    done
  with End_of_file -> ()
